"""C16 - assembly is a pure, deterministic function of its inputs."""
import ast
import os

from ..core import Report, Finding, AnalysisError, VERIF_ROOT
from ..facts import Facts
from ..astutil import unparse, dotted, walk_no_nested
from ..callgraph import CallGraph
from ..pathwalk import Walker, PathState, show
from ..passorder import Pipeline, origins, show as show_value
from .. import purity

LEVEL = 'other'
RULES = ['R16.1.module-state', 'R16.2.mutable-default', 'R16.2.function-state', 'R16.4.hash-order', 'R16.5.ambient', 'R16.5.cwd', 'R16.6.eval-sandbox']


def reachable(cg, entry, extra=()):
    """Functions that may run during a call of `entry`: resolved calls of the call graph (methods are resolved by name over all
    classes), plus every module-level function that a reachable function merely *mentions* (a pass stored in a list / tuple / dict
    of passes, handed to a helper, wrapped in a lambda or functools.partial is address-taken, and an over-approximation of the
    reach is the sound side for effect rules)."""
    seen = set()
    mentioned = set()
    todo = [entry] + list(extra)
    facts = cg.facts
    while todo:
        q = todo.pop()
        if q in seen or q not in cg.funcs:
            continue
        seen.add(q)
        local = purity.local_names(cg.funcs[q])[0]
        for n in walk_no_nested(cg.funcs[q]):
            if isinstance(n, ast.Call):
                todo.extend(cg.callees(q, n))
            elif isinstance(n, ast.Name) and isinstance(n.ctx, ast.Load) and n.id not in local:
                if n.id in facts.funcs:
                    todo.append(n.id)
                elif n.id in facts.assign_nodes and n.id not in mentioned:
                    # a module-level table (list / tuple / dict of parsers, passes, ...): the functions it holds may be called
                    mentioned.add(n.id)
                    for m in ast.walk(facts.assign_nodes[n.id].value):
                        if isinstance(m, ast.Name) and m.id in facts.funcs:
                            todo.append(m.id)
        # nested closures are created inside and called through tables
        for cand, par in cg.parent.items():
            if par == q:
                todo.append(cand)
    return seen


def propagate_param_sets(cg, funcs, sets):
    """Parameters that receive a set-kinded argument at some call site are set-kinded in the callee (two rounds)."""
    purity.PARAM_SETS.clear()
    if cg is None:
        return
    for _ in range(2):
        for callee, sites in cg.call_sites().items():
            cfn = cg.funcs.get(callee)
            if cfn is None:
                continue
            params = [a.arg for a in cfn.args.args]
            for caller_fn, call in sites:
                offset = 1 if ('.' in callee and callee.split('.')[0] in cg.facts.classes and params and params[0] in ('self', 'cls')) else 0
                for i, a in enumerate(call.args):
                    if i + offset < len(params) and purity.set_kinded(a, caller_fn, sets):
                        purity.PARAM_SETS.setdefault(id(cfn), set()).add(params[i + offset])
                for kw in call.keywords:
                    if kw.arg in params and purity.set_kinded(kw.value, caller_fn, sets):
                        purity.PARAM_SETS.setdefault(id(cfn), set()).add(kw.arg)


def run_rules(tree, funcs, emit_for, cg=None, undecided_for=None):
    mut = purity.module_level_mutables(tree)
    sets = {k for k, v in mut.items() if v == 'set'}
    propagate_param_sets(cg, funcs, sets)
    for q, fn in funcs.items():
        purity.check_function(q, fn, mut, sets, lambda rule, node, msg, q=q: emit_for(q, rule, node, msg), module_tree=tree,
                              undecided=(lambda rule, node, msg, q=q: undecided_for(q, rule, node, msg)) if undecided_for else None)


EXISTENCE_TESTS = ('os.path.exists', 'os.path.isfile', 'os.path.lexists')


_FACTS = {}


def _facts_of(fn):
    root = fn
    while getattr(root, '_parent', None) is not None:
        root = root._parent
    if id(root) not in _FACTS:
        _FACTS[id(root)] = Facts(root)
    return _FACTS[id(root)]


def mentions_name(v, name):
    return v == ('name', name) or (isinstance(v, tuple) and any(mentions_name(x, name) for x in v if isinstance(x, tuple)))


def getcwd_allowed(fn, node, facts=None):
    """os.getcwd() is evaluated only on paths where `os.path.exists(<a parameter>)` is known to be false, i.e. where the input is a
    source *string* and not a file (decided on the enumerated paths of the function: the test may be spelled through a local, negated,
    or sit in an enclosing / earlier `if` with an early return).  True / False; AnalysisError when the function cannot be walked."""
    params = {a.arg for a in fn.args.posonlyargs + fn.args.args + fn.args.kwonlyargs}
    facts = facts or _facts_of(fn)
    w = Walker(facts)
    st = PathState()
    for a in params:
        st.env[a] = ('name', a)
    paths = w.run(fn.body, st)
    needle = ('call', 'os.getcwd', (), ())

    def uses(v, extra, out):
        """occurrences of the working directory inside v, each with the conditional-expression tests it sits under"""
        if v == needle:
            out.append(extra)
        elif isinstance(v, tuple) and v and v[0] == 'ifexp' and len(v) == 4:
            uses(v[1], extra, out)
            uses(v[2], extra + [(v[1], True)], out)
            uses(v[3], extra + [(v[1], False)], out)
        elif isinstance(v, tuple):
            for x in v:
                uses(x, extra, out)
        return out

    def judge(conds):
        ok = bad = False
        other = None
        for t, pol in conds:
            while t[0] == 'un' and t[1] == 'not':
                t, pol = t[2], not pol
            if t[0] == 'call' and t[1] in EXISTENCE_TESTS and len(t[2]) == 1 and t[2][0][0] == 'name' and t[2][0][1] in params:
                if pol is False:
                    ok = True
                else:
                    bad = True
            elif any(mentions_name(t, a) for a in params):
                other = t
        return ok, bad, other
    found = False
    for p in paths:
        # the call as such has no effect: what matters is where its value goes.  An event that merely names the result
        # (`cwd = os.getcwd()`) is not a use; the value substituted into later events is.
        occ = []
        for e in p.events:
            if e[0] == 'value' and e[1] == needle:
                found = True
                continue
            uses(e[1:-1], [], occ)
        for extra in occ:
            found = True
            ok, bad, other = judge([(t, pol) for t, pol, _ in p.conds] + extra)
            if ok:
                continue
            if bad or other is None:
                # consulted although the input is a file, or whatever the input is
                return False
            # consulted under a condition on the inputs that is not the existence test (a flag or None computed by the caller)
            raise AnalysisError('{}: the conditions under which the working directory (os.getcwd()) is consulted are not understood ({})'.format(fn.name, show(other)[:60]))
    if not found:
        raise AnalysisError('os.getcwd() in {} is not on any enumerated path'.format(fn.name))
    return True


def run(repo, tier):
    facts = Facts(repo.asm)
    rep = Report('C16', LEVEL,
                 'Effect analysis over everything reachable from assemble() in the call graph: no write to module-level state at call '
                 'time (stores, deletes, mutating methods, aliases, ChainMap first-map position), no mutable default arguments, memo '
                 'decorators or function attributes, no iteration / materialisation of set-kinded values (hash-seed dependent order), no '
                 'ambient inputs (time, random, id, hash, environment, unsorted directory listings; cwd only on the source-string branch), '
                 'eval() with pinned builtins and per-call namespaces.  Each zero-instance rule is kept alive by a positive fixture that '
                 'must fire on every run.')
    rep.trusted_base = ['CPython ast', 'bbverif.callgraph resolution', 'determinism of CPython and struct']
    cg = CallGraph(facts)
    # the pipeline of assemble (which passes run, what they receive).  When it is not understood the effect rules still run on
    # everything reachable from assemble through the call graph - a violation found there must not be masked - and the run ends
    # without verdict otherwise.
    try:
        pipe = Pipeline(facts)
        pass_names = sorted({c.name for _, calls in pipe.all_paths() for c in calls})
    except AnalysisError as e:
        pipe = None
        pass_names = []
        rep.undecided(str(e))
    # methods are called through values the name-based call graph does not always resolve (`table.update(...)` on an object of a
    # repository class is indistinguishable from dict.update): every method of every class counts as reachable - the
    # over-approximation is the sound side for effect rules
    methods = [q for q in cg.funcs if '.' in q and q.split('.')[0] in facts.classes]
    reach = reachable(cg, 'assemble', pass_names + methods)
    missing = [n for n in pass_names if n not in reach]
    if missing:
        raise AnalysisError('passes of the pipeline are not in the analysed reach: {}'.format(missing))
    rep.analysed['pipeline passes in the analysed reach'] = len(pass_names)
    rep.analysed['functions reachable from assemble'] = len(reach)
    funcs = {q: cg.funcs[q] for q in sorted(reach)}
    hits = {}

    def emit(q, rule, node, msg):
        if rule == 'R16.5.cwd':
            if getcwd_allowed(cg.funcs[q], node, facts):
                rep.ok('R16.5.cwd', '{}: os.getcwd() only when the input is a source string'.format(q))
                return
            msg = 'the working directory is consulted outside the source-string branch: results depend on where the process runs'
        hits.setdefault(rule, 0)
        hits[rule] += 1
        stmt = node
        while stmt is not None and not isinstance(stmt, ast.stmt) and getattr(stmt, '_parent', None) is not None:
            stmt = stmt._parent
        rep.fail(Finding(rule, q, stmt if isinstance(stmt, ast.AST) else node, msg, line=getattr(node, 'lineno', None)), instance='{} {}'.format(q, unparse(node)[:50]))
    def und(q, rule, node, msg):
        rep.undecided('{} in {} (line {}): {}'.format(rule, q, getattr(node, 'lineno', '?'), msg))
    run_rules(repo.asm, funcs, emit, cg, und)
    for rule in RULES:
        if rule not in hits:
            rep.ok(rule, 'no instance in the {} functions reachable from assemble()'.format(len(funcs)))
    # per-call tables: every object that assemble hands to a pass next to the item list is either the caller's own argument
    # (a parameter whose default is an immutable constant) or an object created inside this very call - never a module-level
    # object or a default-argument object, which would be shared between calls.  Decided on the abstract values of the pass
    # arguments (bbverif.passorder), whatever names / helpers / containers assemble routes them through.
    fn = facts.funcs['assemble']
    mut = purity.module_level_mutables(repo.asm)
    tables = {}
    for compress, calls in (pipe.all_paths() if pipe is not None else []):
        for c in pipe.passes(calls):
            for i, v in list(enumerate(c.args)) + list(c.kwargs.items()):
                if v[0] not in ('items', 'const', 'func', 'class', 'closure', 'partial', 'builtin'):     # data flowing on / code
                    tables.setdefault(v, (c, i))
    n_tables = 0
    for v, (c, i) in tables.items():
        n_tables += 1
        what = 'argument {} of {}'.format(i, c.name)
        for leaf in origins(v):
            if leaf[0] == 'ref':
                rep.ok('R16.2.fresh', '{}: created inside the call'.format(what))
            elif leaf[0] == 'param':
                d = pipe.defaults.get(leaf[1])
                ok = d is None or isinstance(d, ast.Constant)
                rep.check(ok, 'R16.2.fresh', '{}: the caller\'s `{}` (immutable default)'.format(what, leaf[1]),
                          lambda leaf=leaf: Finding('R16.2.fresh', 'assemble', fn, 'the default of `{}` is an object shared between calls'.format(leaf[1]), line=fn.lineno))
            elif leaf[0] == 'module':
                # shared between calls: harmless as long as the pass only reads it
                use = 'unknown'
                callee = facts.funcs.get(c.name)
                if callee is not None:
                    cparams = [a.arg for a in callee.args.posonlyargs + callee.args.args]
                    pname = (cparams[i] if isinstance(i, int) and i < len(cparams) else None) if isinstance(i, int) else \
                        (i if i in cparams + [a.arg for a in callee.args.kwonlyargs] else None)
                    if pname is not None and not callee.args.vararg:
                        use = purity.default_use_class(callee, pname, repo.asm)
                if use == 'bad':
                    rep.fail(Finding('R16.2.fresh', 'assemble', c.node, 'the fallback for a per-call table is the module-level object `{}`: it is shared between calls '
                                     'and filled by {}'.format(leaf[1], c.name), line=getattr(c.node, 'lineno', fn.lineno)), instance=what)
                elif use == 'ok':
                    rep.ok('R16.2.fresh', '{}: the module-level `{}` is only read by {}'.format(what, leaf[1], c.name))
                else:
                    rep.undecided('assemble hands the module-level object `{}` to {}; whether the pass changes it is not established'.format(leaf[1], c.name))
            else:
                raise AnalysisError('assemble: origin of {} is not understood: {}'.format(what, show_value(leaf)))
    rep.analysed['per-call tables traced'] = n_tables
    # the pass that *defines* the labels only writes the caller's table: a decision taken on what the dict already holds (a
    # membership test, a lookup) makes the outcome depend on entries left over from an earlier call with the same dict
    definer = facts.funcs.get('resolve_labels')
    if definer is None:
        raise AnalysisError('anchor vanished: pass resolve_labels')
    dparams = {a.arg for a in definer.args.posonlyargs + definer.args.args + definer.args.kwonlyargs}
    written = {n.value.id for n in ast.walk(definer) if isinstance(n, ast.Subscript) and isinstance(n.ctx, ast.Store)
               and isinstance(n.value, ast.Name) and n.value.id in dparams}
    if not written:
        raise AnalysisError('resolve_labels: the label table it fills is not a parameter written by item assignment')
    for tbl in sorted(written):
        reads = []
        for n in ast.walk(definer):
            if isinstance(n, ast.Compare) and any(isinstance(c, ast.Name) and c.id == tbl for c in n.comparators) and any(isinstance(o, (ast.In, ast.NotIn)) for o in n.ops):
                reads.append(n)
            elif isinstance(n, ast.Subscript) and isinstance(n.ctx, ast.Load) and isinstance(n.value, ast.Name) and n.value.id == tbl:
                reads.append(n)
            elif isinstance(n, ast.Call) and isinstance(n.func, ast.Attribute) and isinstance(n.func.value, ast.Name) and n.func.value.id == tbl \
                    and n.func.attr in ('get', 'keys', 'values', 'items', 'pop', 'setdefault', '__contains__'):
                reads.append(n)
            elif isinstance(n, (ast.For, ast.comprehension)) and isinstance(n.iter, ast.Name) and n.iter.id == tbl:
                reads.append(n)
        rep.check(not reads, 'R16.7.leftovers', 'resolve_labels only writes the caller\'s `{}` table'.format(tbl),
                  lambda reads=reads, tbl=tbl: Finding('R16.7.leftovers', 'resolve_labels', reads[0],
                                                       'the pass that defines the labels consults what the caller\'s `{}` dict already holds ({}): assembling the same source again '
                                                       'with the same dict - it still holds the labels of the first run - gives a different outcome'.format(tbl, unparse(reads[0])[:50]),
                                                       line=reads[0].lineno))
    # module import does not depend on ambient inputs either
    mod_fn = ast.FunctionDef(name='<module>', args=ast.arguments(posonlyargs=[], args=[], kwonlyargs=[], kw_defaults=[], defaults=[]),
                             body=[s for s in repo.asm.body if not isinstance(s, (ast.FunctionDef, ast.ClassDef))], decorator_list=[])
    purity.check_function('<module>', mod_fn, {}, set(), lambda rule, node, msg: emit('<module>', rule, node, msg) if rule in ('R16.5.ambient', 'R16.4.hash-order') else None,
                          undecided=lambda rule, node, msg: und('<module>', rule, node, msg) if rule in ('R16.5.ambient', 'R16.4.hash-order') else None)
    # positive fixture: every rule must still be able to fire
    fx = os.path.join(VERIF_ROOT, 'fixtures', 'c16_impure.py')
    try:
        with open(fx) as f:
            ftree = ast.parse(f.read())
    except OSError as e:
        raise AnalysisError('positive fixture missing: {}'.format(e))
    for node in ast.walk(ftree):
        for ch in ast.iter_child_nodes(node):
            ch._parent = node
    fired = set()
    ffuncs = {st.name: st for st in ftree.body if isinstance(st, ast.FunctionDef)}
    run_rules(ftree, ffuncs, lambda q, rule, node, msg: fired.add(rule))
    missing = [r for r in RULES if r not in fired]
    if missing:
        raise AnalysisError('purity rules no longer fire on the positive fixture: {}'.format(missing))
    rep.analysed['rules alive on the positive fixture'] = len(fired)
    rep.sample({'reachable': sorted(reach)[:20], 'fixture_rules_fired': sorted(fired)})
    rep.floor('functions reachable from assemble', 40)
    rep.floor('pipeline passes in the analysed reach', 10)
    rep.floor('per-call tables traced', 2)
    rep.floor('rules alive on the positive fixture', len(RULES))
    return rep
