"""C14 - include is textual splicing, resolved independently of the working directory.

All rules are stated over the provenance dataflow of `bbverif.prov` (kinds of path values, reaching definitions, summaries of
helpers / closures / attributes) and over path summaries of the reader loop; none of them looks at variable or helper names.
The only anchors are the public entry points `assemble`, `cli_main` and the reader `read_lines` (the function that reads a
file and calls itself for included files)."""
import ast

from ..core import Report, Finding, AnalysisError
from ..facts import Facts
from ..astutil import unparse, dotted
from ..callgraph import CallGraph
from ..prov import Prov, DIRKINDS, coarse, is_cwd_expr, walk_fn
from ..pathwalk import MUTATORS, show
from ..hwalk import loop_paths_h, function_paths
from ..immsites import find_all

LEVEL = 'other'
BAD = {'RawToken', 'Literal'}
UNCLASSIFIED = {'Unknown', 'ObjAttrs', 'CliArgs'}


def stmt_of(node):
    cur = node
    while cur is not None and not isinstance(cur, ast.stmt):
        cur = getattr(cur, '_parent', None)
    return cur if cur is not None else node


def defer(rep, message):
    """An "I do not understand this" verdict that must not mask a violation established elsewhere: raised at the end of the run
    only when no finding was made."""
    rep.__dict__.setdefault('deferred', []).append(message)


def raise_deferred(rep):
    if not rep.findings and rep.__dict__.get('deferred'):
        raise AnalysisError(rep.deferred[0])


def only_reported(node):
    """The value is merely an argument of a logging / print call (it takes no part in finding files)."""
    p = getattr(node, '_parent', None)
    while p is not None and not isinstance(p, ast.stmt):
        if isinstance(p, ast.Call) and ((dotted(p.func) or '').split('.')[0] in ('log', 'logging', 'logger', 'warnings') or dotted(p.func) == 'print'):
            return True
        p = getattr(p, '_parent', None)
    return False


def classify_sink(pv, q, name, arg):
    """('ok' | 'bad' | 'unknown', kinds) for the path argument of a filesystem call."""
    ks = set(pv.kinds(arg, q)) - {'NoneK'}
    if ks & BAD:
        return 'bad', ks
    if ks & UNCLASSIFIED or not ks:
        return 'unknown', ks
    return 'ok', ks


def check_sinks(rep, facts, cg, pv, rule, reach):
    sinks = pv.sinks(reach)
    rep.analysed['filesystem sinks reachable from assemble'] = len(sinks)
    roles = {'sinks that read a file': 0, 'sinks given the caller\'s own path': 0, 'sinks given a path the include search returned': 0}
    for q, node, name, arg in sinks:
        verdict, ks = classify_sink(pv, q, name, arg)
        if name.split('.')[-1] in ('open', 'read_text', 'read_bytes'):
            roles['sinks that read a file'] += 1
        if 'UserGiven' in ks:
            roles['sinks given the caller\'s own path'] += 1
        if ks == {'Resolved'}:
            roles['sinks given a path the include search returned'] += 1
        if verdict == 'unknown':
            defer(rep, '{}: the path given to {}({}) could not be classified (kinds {}): no verdict'.format(q, name, unparse(arg), sorted(ks) or ['none']))
            continue
        k = coarse(ks)
        rep.check(verdict == 'ok', rule, '{}: {}({}) receives a {} path'.format(q, name, unparse(arg), k),
                  lambda q=q, node=node, name=name, arg=arg, ks=ks: Finding(
                      rule, q, node, '{}({}) is given a path of kind {}: text taken from the source line (or a literal) is resolved against the process '
                      'working directory, not against the including file or the -i directories'.format(name, unparse(arg), '/'.join(sorted(ks & BAD))),
                      line=node.lineno))
    for q in reach:
        for n in walk_fn(cg.funcs[q]):
            if is_cwd_expr(n):
                if only_reported(n):
                    continue
                g = pv.cwd_guard(q, n)
                if g == 'unknown':
                    defer(rep, '{}: the conditions under which the working directory ({}) is consulted are not understood: no verdict'.format(q, unparse(n)))
                    continue
                rep.check(g == 'guarded', rule + '.cwd', '{}: the working directory ({}) is consulted only when the input is a source string'.format(q, unparse(n)),
                          lambda q=q, n=n: Finding(rule + '.cwd', q, n, 'the working directory takes part in resolving includes of a *file*', line=n.lineno))
    rep.analysed.update(roles)
    return sinks


def caller_object_params(pv, cg, reach, seeds):
    """(qual, param) pairs whose argument may be the very list object the API caller passed (by-reference flow through calls)."""
    seen = set(seeds)
    todo = list(seeds)
    while todo:
        q, p = todo.pop()
        for n in walk_fn(cg.funcs[q]):
            if not isinstance(n, ast.Call):
                continue
            for callee in pv.callees(q, n):
                if callee not in cg.funcs:
                    continue
                for param, args in pv.bind_call(callee, n, q).items():
                    if any(pv.same_object(a, q, p) for a in args) and (callee, param) not in seen:
                        seen.add((callee, param))
                        todo.append((callee, param))
    return seen


def find_reader(pv, cg):
    """The function that reads one source and calls itself for included files: `read_lines`, or the self-recursive function it
    delegates to (a nested generator, a method of a reader object)."""
    if 'read_lines' not in cg.funcs:
        raise AnalysisError('anchor vanished: read_lines')
    cands = set()
    inside = pv.reach('read_lines', dynamic=False)
    for q in sorted(inside):
        for n in walk_fn(cg.funcs[q]):
            if isinstance(n, ast.Call):
                for callee in pv.callees(q, n):
                    if callee in cg.funcs and callee in inside and q in pv.reach(callee, dynamic=False):
                        cands.add(callee)       # the call closes a cycle: callee is (re-)entered for an included file
    if 'read_lines' in cands:
        return 'read_lines'
    if len(cands) == 1:
        return next(iter(cands))
    raise AnalysisError('read_lines: no single recursively entered reader function (candidates {})'.format(sorted(cands)))


def desugar_generator(fn):
    """A generator function as the list-building function it denotes: `yield x` -> out.append(x), `yield from e` -> out.extend(e),
    out returned at the end (laziness aside, the produced sequence is the same).  The function is re-parsed from its own text, so
    the analysed tree is not touched."""
    tree = ast.parse(ast.unparse(fn))
    new = tree.body[0]
    ast.increment_lineno(new, fn.lineno - 1)
    OUT = '__yielded'

    def call(meth, arg, at):
        return ast.copy_location(ast.Expr(value=ast.Call(func=ast.Attribute(value=ast.Name(id=OUT, ctx=ast.Load()), attr=meth, ctx=ast.Load()), args=[arg], keywords=[])), at)

    class T(ast.NodeTransformer):
        def visit_FunctionDef(self, node):
            return node if node is not new else self.generic_visit(node)

        def visit_Lambda(self, node):
            return node

        def visit_Expr(self, node):
            v = node.value
            if isinstance(v, ast.Yield):
                return call('append', v.value or ast.Constant(value=None), node)
            if isinstance(v, ast.YieldFrom):
                return call('extend', v.value, node)
            return node

        def visit_Return(self, node):
            if node.value is not None:
                raise AnalysisError('{}: generator returns a value'.format(fn.name))
            return ast.copy_location(ast.Return(value=ast.Name(id=OUT, ctx=ast.Load())), node)
    T().visit(new)
    if any(isinstance(n, (ast.Yield, ast.YieldFrom)) for n in ast.walk(new) if not isinstance(n, ast.Lambda)):
        nested = [d for d in ast.walk(new) if isinstance(d, ast.FunctionDef) and d is not new]
        if any(isinstance(n, (ast.Yield, ast.YieldFrom)) for n in ast.walk(new) if not any(n in ast.walk(d) for d in nested)):
            raise AnalysisError('{}: a yield is used as an expression'.format(fn.name))
    new.body.insert(0, ast.copy_location(ast.Assign(targets=[ast.Name(id=OUT, ctx=ast.Store())], value=ast.List(elts=[], ctx=ast.Load())), new.body[0]))
    new.body.append(ast.copy_location(ast.Return(value=ast.Name(id=OUT, ctx=ast.Load())), new.body[-1]))
    ast.fix_missing_locations(new)
    for node in ast.walk(new):
        for child in ast.iter_child_nodes(node):
            child._parent = node
    new._parent = None
    return new


def check_reader(rep, facts, cg, pv, reach):
    reader = find_reader(pv, cg)
    fn = cg.funcs[reader]
    a = fn.args
    pos = [x.arg for x in getattr(a, 'posonlyargs', []) + a.args]
    is_method = '.' in reader and reader.split('.')[0] in facts.classes and bool(pos) and not fn.decorator_list
    if is_method:
        pos = pos[1:]
    all_params = pos + [x.arg for x in a.kwonlyargs]
    if not pos:
        raise AnalysisError('{} takes no positional path parameter'.format(reader))
    path_param = pos[0]
    flag_params = [p for p in all_params if isinstance(pv.default_of(fn, p), ast.Constant) and pv.default_of(fn, p).value is False]
    dir_params = [p for p in all_params if 'Dir' in pv.param_kinds(reader, p)]
    rep.note('reader function: {}'.format(reader)) if reader != 'read_lines' else None
    if not dir_params:
        check_ambient_dirs(rep, facts, cg, pv, reader)

    # R14.2 recursion: the included file is read by the path the search returned, as a file, with the caller's own -i list
    n_rec = 0
    for q in sorted(pv.reach(reader)):
        for c in walk_fn(cg.funcs[q]):
            if not (isinstance(c, ast.Call) and reader in pv.callees(q, c)):
                continue
            if reader != 'read_lines' and q not in pv.reach(reader):
                continue
            n_rec += 1
            bound = pv.bind_call(reader, c, q)
            if '**' in bound:
                defer(rep, '{}: the recursive read is given **{}: its options are not understood'.format(q, unparse(bound['**'][0])[:60]))
                continue
            problems = []
            ks = set()
            for arg in bound.get(path_param, []):
                ks |= pv.kinds(arg, q)
            ks -= {'NoneK'}
            if ks & BAD or not ks:
                problems.append('passes a {} path'.format('/'.join(sorted(ks)) or 'missing'))
            elif ks != {'Resolved'}:
                defer(rep, '{}: the path handed to the recursive read could not be classified ({})'.format(q, sorted(ks)))
            for p in flag_params:
                vals = bound.get(p, [])
                if not (vals and all(isinstance(v, ast.Constant) and v.value is True for v in vals)):
                    problems.append('does not pass {}=True (an included path must be read as a file)'.format(p))
            for p in dir_params:
                dk = set()
                for arg in bound.get(p, []):
                    dk |= pv.kinds(arg, q)
                dk -= {'NoneK'}
                if dk - DIRKINDS:
                    defer(rep, '{}: the directory list handed to the recursive read could not be classified ({})'.format(q, sorted(dk)))
                elif 'Dir' not in dk:
                    problems.append('does not hand the caller\'s include directories down ({} is {})'.format(p, '/'.join(sorted(dk)) or 'None'))
                elif dk - {'Dir'}:
                    problems.append('hands down a directory list that also holds {} (directories of this file leak into nested includes)'.format(
                        '/'.join(sorted(dk - {'Dir'}))))
            rep.check(not problems, 'R14.2.recursion', '{}: included file is read by its resolved path, as a file, with the caller\'s include directories'.format(q),
                      lambda c=c, q=q, problems=problems: Finding('R14.2.recursion', q, c,
                                                                  'the recursive read ' + '; '.join(problems) + ': nested includes are not resolved like top-level ones', line=c.lineno))
    rep.analysed['recursive include calls'] = n_rec

    # R14.2.adjacent: every include search ranges over the -i directories and the directory of the including file
    n_search = 0
    for q in reach:
        for n in walk_fn(cg.funcs[q]):
            first = None
            if isinstance(n, ast.Call) and dotted(n.func) == 'os.path.join' and len(n.args) > 1 and not isinstance(n.args[0], ast.Starred):
                first = n.args[0]
            elif isinstance(n, ast.BinOp) and isinstance(n.op, ast.Div):
                first = n.left
            elif isinstance(n, ast.Call) and isinstance(n.func, ast.Attribute) and n.func.attr == 'joinpath' and n.args:
                first = n.func.value
            if first is not None:
                ks = set(pv.kinds(first, q)) - {'NoneK'}
                if not ks & DIRKINDS:
                    continue
                n_search += 1
                missing = [k for k in ('Dir', 'AdjDir') if k not in ks]
                if missing and ks & UNCLASSIFIED:
                    defer(rep, '{}: the directories searched by {} could not be classified ({})'.format(q, unparse(n)[:60], sorted(ks)))
                    continue
                rep.check(not missing, 'R14.2.adjacent', '{}: the search ranges over the -i directories and the directory of the including file'.format(q),
                          lambda q=q, n=n, ks=ks, missing=missing: Finding(
                              'R14.2.adjacent', q, n, 'the include search joins the name with directories of kind {} only: {} not searched'.format(
                                  '/'.join(sorted(ks)), ' and '.join({'Dir': 'the -i directories are', 'AdjDir': 'the directory of the file being read is'}[m] for m in missing)),
                              line=n.lineno))
    rep.analysed['include search sites'] = n_search

    # R14.2.dirs-copied: the list object the API caller passed is never changed in place
    shared = caller_object_params(pv, cg, reach, [('assemble', p) for p in pv.params(cg.funcs['assemble'])
                                                     if 'Dir' in pv.param_kinds('assemble', p)])
    muts = []
    for q, p in sorted(shared):
        for m in pv.inplace_mutations(q, p):
            muts.append((q, p, m))
    for q, p, m in muts:
        rep.fail(Finding('R14.2.dirs-copied', q, stmt_of(m), 'the caller\'s include_dirs list is changed in place ({}): directories leak from one file / one '
                         'assemble() call to the next'.format(unparse(m)[:80]), line=m.lineno), instance='{} {}'.format(q, unparse(m)[:60]))
    if not muts:
        rep.ok('R14.2.dirs-copied', 'the caller\'s include directory list is only read ({} by-reference uses followed)'.format(len(shared)))

    check_splice(rep, facts, cg, fn, reader, is_method)


def check_ambient_dirs(rep, facts, cg, pv, reader):
    """The reader takes no directory-list parameter: the caller's -i directories reach it through a closure variable or an attribute
    of the reader object, shared by all nesting levels.  Then that shared list must hold the caller's directories only: nothing
    (the directory of a file, the cwd) may ever be added to it."""
    seen = 0
    sites = []
    for q in sorted(pv.reach(reader)):
        fq = cg.funcs[q]
        for n in walk_fn(fq):
            if isinstance(n, ast.Name) and isinstance(n.ctx, ast.Load) and n.id not in pv.params(fq):
                if any(h[0] == 'free' for h, _ in pv.reaching(q, n)) and 'Dir' in pv.kinds(n, q):
                    sites.append((q, n))
            elif isinstance(n, ast.Attribute) and isinstance(n.ctx, ast.Load) and pv.attr_stores().get(n.attr) and 'Dir' in pv.kinds(n, q):
                sites.append((q, n))
    for q, shared in sites:
        seen += 1
        ks = set(pv.kinds(shared, q)) - {'NoneK'}
        if ks & UNCLASSIFIED:
            defer(rep, '{}: the shared include directory list {} could not be classified ({})'.format(reader, unparse(shared), sorted(ks)))
            continue
        rep.check(ks == {'Dir'}, 'R14.2.recursion', '{}: the include directories shared by all nesting levels ({}) hold the caller\'s directories only'.format(reader, unparse(shared)),
                  lambda shared=shared, ks=ks: Finding('R14.2.recursion', reader, shared, 'the directory list shared by all nesting levels ({}) also receives {}: directories of one file '
                                                       'leak into the files it includes'.format(unparse(shared), '/'.join(sorted(ks - {'Dir'}))), line=shared.lineno))
    if not seen:
        raise AnalysisError('{}: no parameter, closure variable or attribute carries the caller\'s include directories'.format(reader))


def rec_calls(values, name='read_lines'):
    out = []
    for v in values:
        for r in find_all(v, lambda t: (t[0] in ('call',) and t[1] == name) or (t[0] == 'mcall' and t[2] == name)):
            if r not in out:
                out.append(r)
    return out


REC_NAME = ['read_lines']      # simple name under which the reader calls itself (set per run)


def parts_of(value):
    """What a value spliced into the line list contributes: [('rec', call) | ('one', v) | ('opaque', v)]."""
    v = strip_res(value)
    if (v[0] == 'call' and v[1] == REC_NAME[0]) or (v[0] == 'mcall' and v[2] == REC_NAME[0]):
        return [('rec', v)]
    if v[0] in ('list', 'tuple'):
        out = []
        for x in v[1]:
            out += parts_of(x[1]) if x[0] == 'star' else [('one', x)]
        return out
    if v[0] == 'bin' and v[1] == '+':
        return parts_of(v[2]) + parts_of(v[3])
    if v[0] == 'call' and v[1] in ('list', 'tuple') and len(v[2]) == 1 and not v[3]:
        return parts_of(v[2][0])
    return [('opaque', v)]


def implies_blank(test, pol):
    """The outcome `pol` of `test` holds exactly when a piece of text is empty after stripping (`not x.strip()`,
    `len(x.strip()) == 0`, `x.strip() == ''`, `not x.split()` ...): decided by evaluating the test for an empty and a non-empty
    stripped text."""
    from ..symeval import SymEval, Undecided
    pieces = find_all(test, lambda v: v[0] == 'mcall' and v[2] in ('strip', 'lstrip', 'rstrip', 'split') and not v[3] and not v[4])
    for m in pieces:
        empty, full = ('', 'x') if m[2] != 'split' else ([], ['x'])
        try:
            a = bool(SymEval(None, {m: empty}).ev(test))
            b = bool(SymEval(None, {m: full}).ev(test))
        except (Undecided, AttributeError):
            continue
        if a == pol and b != pol:
            return True
    return False


def judge_contribution(rep, where, cond, recs, parts, node, fallback_line, path=None):
    """One path of the per-line processing: an include line contributes exactly the lines of the included file, any other line
    itself - nothing only when the line is blank.  Returns 'include' | 'plain' | 'opaque'."""
    line = getattr(node, 'lineno', fallback_line)
    if any(k == 'opaque' for k, _ in parts):
        defer(rep, '{}: what `{}` adds to the line list is not understood: no verdict'.format(where, show(next(v for k, v in parts if k == 'opaque'))[:80]))
        return 'opaque'
    if recs:
        ok = len(recs) == 1 and parts == [('rec', recs[0])]
        rep.check(ok, 'R14.3.splice', 'include path [{}]: the lines of the included file, and nothing else, are added at the position of the include line'.format(cond[-60:]),
                  lambda: Finding('R14.3.splice', where, node, 'the lines of an included file are not spliced in (once, alone) at the position of the include line', line=line))
        return 'include'
    if not parts and path is not None and not any(implies_blank(t, pol) for t, pol, _ in path.conds):
        # a non-blank line (an include line among them) that contributes nothing
        other = [e for e in path.events if (e[0] == 'mcall' and e[2] in MUTATORS and e[2] not in ('add', 'discard', 'update', 'setdefault')) or e[0] in ('setitem', 'augstore')]
        if other:
            defer(rep, '{}: a line contributes nothing on the path [{}] but other containers change: not understood'.format(where, cond[-80:]))
            return 'opaque'
        rep.fail(Finding('R14.3.splice', where, node, 'on the path [{}] a non-blank source line (an include line, if the path handles one) contributes nothing to the line '
                         'list: it is dropped instead of being kept / replaced by the included lines'.format(cond[-100:]), line=line), instance='dropped ' + cond[-60:])
        return 'plain'
    ok = len(parts) <= 1 and all(k == 'one' for k, _ in parts)
    rep.check(ok, 'R14.3.splice', 'ordinary line: kept once, in order', lambda: Finding('R14.3.splice', where, node, 'source lines are not kept exactly once in order', line=line),
              nontrivial=False)
    return 'plain'


def check_index_iteration(loop, paths):
    """A `while i < len(rows)` loop visits the rows in order, each once, iff i starts at 0, is advanced by exactly 1 on every path
    through the body, and rows are only read at the not yet advanced index.  Anything else is not understood (AnalysisError)."""
    from ..immsites import contains
    if not paths:
        raise AnalysisError('read_lines: the reader loop has no path')
    for p in paths:
        test = p.loop_test
        if not (test[0] == 'cmp' and test[1] in ('<', '!=') and test[2][0] == 'lv' and test[3][0] == 'call' and test[3][1] == 'len' and len(test[3][2]) == 1):
            raise AnalysisError('read_lines: while loop over {} is not an index iteration'.format(show(test)[:80]))
        idx, rows = test[2], test[3][2][0]
        if find_all(rows, lambda t: t[0] == 'lv') or p.pre_env.get(idx[1]) != ('const', 0):
            raise AnalysisError('read_lines: the index of the reader loop does not start at 0 over a fixed list')
        if p.end == 'raise':
            continue
        augs = [e for e in p.events if e[0] == 'aug' and e[1] == idx[1]]
        if len(augs) != 1 or augs[0][2] != '+' or augs[0][3] != ('const', 1):
            raise AnalysisError('read_lines: the index of the reader loop is not advanced by exactly one on the path [{}]'.format(p.cond_text()[-80:]))
        values = [part for ev in p.events for part in ev[1:] if isinstance(part, tuple)] + [t for t, _, _ in p.conds]
        for v in values:
            for t in find_all(v, lambda t: t[0] == 'sub' and (t[1] == rows or contains(t[2], idx))):
                if t != ('sub', rows, idx):
                    raise AnalysisError('read_lines: rows are read at {} (not the current index)'.format(show(t)[:60]))


def check_splice(rep, facts, cg, fn, reader='read_lines', is_method=False):
    """R14.3: the returned list is the in-order concatenation, over the source lines, of what each line contributes."""
    REC_NAME[0] = fn.name
    if any(isinstance(n, (ast.Yield, ast.YieldFrom)) for n in walk_fn(fn)):
        fn = desugar_generator(fn)
    rec_calls_ = lambda values: rec_calls(values, REC_NAME[0])
    ret = [st for st in fn.body if isinstance(st, ast.Return) and st.value is not None]
    if not ret:
        raise AnalysisError('read_lines: no top-level return')
    value = ret[-1].value
    result = value.id if isinstance(value, ast.Name) else None
    loops = [st for st in fn.body if isinstance(st, (ast.For, ast.While))]
    n_inc = 0
    if result is not None and loops:
        # loop form: the list is grown inside the (first) top-level loop
        loop, paths = loop_paths_h(facts, fn, opaque={fn.name}, self_class=reader.split('.')[0] if is_method else None)
        if isinstance(loop, ast.While):
            check_index_iteration(loop, paths)
        is_result = lambda v: v in (('lv', result), ('name', result))
        for p in paths:
            if p.end == 'raise':
                continue
            recs = rec_calls_([part for ev in p.events for part in ev[1:]])
            parts = []
            node = None
            unknown_mut = None
            for e in p.events:
                if e[0] == 'mcall' and is_result(e[1]) and e[2] in MUTATORS:
                    node = node or e[5]
                    if e[2] == 'append' and len(e[3]) == 1:
                        parts.append(('one', e[3][0]))
                    elif e[2] == 'extend' and len(e[3]) == 1:
                        parts += parts_of(e[3][0])
                    else:
                        unknown_mut = e
                elif e[0] == 'aug' and e[1] == result:
                    node = node or e[4]
                    if e[2] == '+':
                        parts += parts_of(e[3])
                    else:
                        unknown_mut = e
            if unknown_mut is not None:
                continue        # reported by R14.3.order below
            if judge_contribution(rep, reader, p.cond_text(), recs, parts, node or p.end_node or loop, fn.lineno, path=p) == 'include':
                n_inc += 1
        bad = [n for n in ast.walk(fn) if isinstance(n, ast.Call) and isinstance(n.func, ast.Attribute) and n.func.attr in ('insert', 'sort', 'reverse', 'pop', 'remove', 'clear')
               and isinstance(n.func.value, ast.Name) and n.func.value.id == result]
        bad += [n for n in ast.walk(loop) if isinstance(n, ast.Name) and isinstance(n.ctx, ast.Store) and n.id == result and not isinstance(getattr(n, '_parent', None), ast.AugAssign)]
        rep.check(not bad, 'R14.3.order', 'the line list is built by append/extend only and never rebound inside the loop',
                  lambda: Finding('R14.3.order', 'read_lines', stmt_of(bad[0]), 'the line list is reordered / rebuilt inside the reader loop', line=bad[0].lineno), nontrivial=False)
    else:
        # flat-map form: [x for <line> in <lines> ... for x in contribution(<line>)]
        if result is not None:
            defs = [st for st in fn.body if isinstance(st, ast.Assign) and any(isinstance(t, ast.Name) and t.id == result for t in st.targets)]
            if len(defs) != 1:
                raise AnalysisError('read_lines: the returned list is neither grown in a loop nor built by one comprehension')
            value = defs[0].value
        g = value.generators[-1] if isinstance(value, ast.ListComp) and len(value.generators) >= 2 else None
        if not (g is not None and isinstance(value.elt, ast.Name) and isinstance(g.target, ast.Name) and g.target.id == value.elt.id and not g.ifs
                and isinstance(g.iter, ast.Call) and isinstance(g.iter.func, ast.Name)):
            raise AnalysisError('read_lines: the returned list is neither grown in a loop nor a flattening comprehension over a per-line function')
        target = cg.local_defs(reader).get(g.iter.func.id) or (g.iter.func.id if g.iter.func.id in facts.funcs else None)
        if target is None:
            raise AnalysisError('read_lines: per-line function {} not found'.format(g.iter.func.id))
        w, paths = function_paths(facts, cg.funcs[target])
        for p in paths:
            if p.end == 'raise':
                continue
            recs = rec_calls_([part for ev in p.events for part in ev[1:]])
            rv = [e for e in p.events if e[0] == 'return']
            if not rv:
                defer(rep, '{}: a path returns nothing to flatten'.format(target))
                continue
            if judge_contribution(rep, target, p.cond_text(), recs, parts_of(rv[-1][1]), rv[-1][2], fn.lineno, path=p) == 'include':
                n_inc += 1
    rep.analysed['include paths through the reader loop'] = n_inc


def strip_res(v):
    while isinstance(v, tuple) and v and v[0] == 'res':
        v = v[3]
    return v


def check_cli(rep, facts, cg, pv):
    if 'cli_main' not in cg.funcs:
        raise AnalysisError('anchor vanished: asm.cli_main')
    calls = []
    for q in sorted(pv.reach('cli_main')):
        for n in walk_fn(cg.funcs[q]):
            if isinstance(n, ast.Call) and 'assemble' in pv.callees(q, n):
                calls.append((q, n))
    if not calls:
        raise AnalysisError('anchor vanished: assemble call reachable from cli_main')
    afn = cg.funcs['assemble']
    path_param = pv.params(afn)[0]
    dir_params = [p for p in pv.params(afn) if 'Dir' in pv.param_kinds('assemble', p)]
    n_sources = 0
    for q, c in calls:
        bound = pv.bind_call('assemble', c, q)
        if '**' in bound:
            defer(rep, '{}: assemble() is given **{}: its options are not understood'.format(q, unparse(bound['**'][0])[:60]))
            continue
        for arg in bound.get(path_param, []):
            ok = pv.is_abs(arg, q)
            if not ok and not pv.understood_relative(arg, q):
                defer(rep, '{}: whether the input path `{}` is absolute is not understood'.format(q, unparse(arg)[:60]))
                continue
            rep.check(ok, 'R14.4.cli', '{}: the input path is made absolute before assembling'.format(q),
                      lambda c=c, q=q: Finding('R14.4.cli', q, c, 'the input path is handed to assemble() without os.path.abspath', line=c.lineno))
        for p in dir_params:
            for arg in bound.get(p, []):
                sources = []
                pv.is_abs(arg, q, sources)
                n_sources += len(sources)
                for node, ok, nq in sources:
                    if not ok and not pv.understood_relative(node, nq):
                        defer(rep, '{}: whether the include directory `{}` is absolute is not understood'.format(nq or q, unparse(node)[:60]))
                        continue
                    rep.check(ok, 'R14.4.cli', 'include dir `{}` is absolute'.format(unparse(node)),
                              lambda node=node, q=q: Finding('R14.4.cli', q, stmt_of(node), 'an include directory is stored relative to the working directory '
                                                             '(`{}` is neither os.path.abspath(...) nor built from an absolute directory)'.format(unparse(node)[:80]), line=node.lineno))
                    if nq is not None:
                        check_every_dir_kept(rep, facts, pv, node, nq)
    rep.analysed['cli include dir sources'] = n_sources


def check_every_dir_kept(rep, facts, pv, source, q):
    """R14.4.all-dirs: a directory list element built from the elements of a user-given list (the -i directories): every element
    of that list must end up in the search list (validation may refuse, i.e. raise, but not silently skip)."""
    from ..pathwalk import Walker, PathState
    fn = pv.fn_of(q)
    child, p = source, getattr(source, '_parent', None)
    while p is not None and p is not fn:
        if isinstance(p, (ast.ListComp, ast.SetComp, ast.GeneratorExp)):
            gens = [g for g in p.generators if 'UserGiven' in pv.kinds(g.iter, q)]
            if gens:
                filt = [c for g in p.generators for c in g.ifs]
                if filt:
                    defer(rep, '{}: the -i directories are filtered by `{}`: not understood'.format(q, unparse(filt[0])[:60]))
                else:
                    rep.ok('R14.4.all-dirs', '{}: every element of `{}` is kept'.format(q, unparse(gens[0].iter)[:40]))
                return
        if isinstance(p, ast.For) and any(child is s for s in p.body) and 'UserGiven' in pv.kinds(p.iter, q):
            grow = stmt_of(source)
            st = PathState()
            for a in pv.params(fn):
                st.env[a] = ('name', a)
            paths = Walker(facts).run(p.body, st)
            for path in paths:
                if path.end in ('raise', 'return'):
                    continue
                kept = any(ev[-1] is grow for ev in path.events if isinstance(ev[-1], ast.AST))
                if kept and path.end != 'break':
                    continue
                # a path on which the directory is not added: harmless only for a directory that was already added
                skips = [(t, pol) for t, pol, _ in path.conds if t[0] == 'cmp' and t[1] in ('in', 'not in') and (t[1] == 'in') == pol]
                verdict = 'dropped'
                for t, pol in skips:
                    holder = t[3]
                    if holder[0] == 'name':
                        init = empty_initialised(pv, fn, q, holder[1], p)
                        verdict = {True: 'duplicate', False: 'seeded'}.get(init, verdict)
                    elif holder[0] != 'name':
                        # the walker saw the initial value of the collection
                        verdict = 'duplicate' if holder in (('set', ()), ('list', ()), ('dict', ()), ('call', 'set', (), ())) else 'seeded'
                if verdict == 'duplicate':
                    continue
                if verdict == 'dropped' and skips:
                    defer(rep, '{}: a -i directory is skipped on the path [{}]: not understood'.format(q, path.cond_text()[-80:]))
                    continue
                node = path.end_node or p
                rep.fail(Finding('R14.4.all-dirs', q, node, 'on the path [{}] a directory given with -i is not added to the search list{}: the include search then '
                                 'depends on how / from where the directory was spelled'.format(
                                     path.cond_text()[-100:], ' (the collection of already seen directories does not start empty)' if verdict == 'seeded' else ''),
                                 line=getattr(node, 'lineno', p.lineno)), instance='dropped ' + path.cond_text()[-60:])
            rep.ok('R14.4.all-dirs', '{}: the loop over `{}` was followed'.format(q, unparse(p.iter)[:40]), nontrivial=False)
            return
        child, p = p, getattr(p, '_parent', None)


def empty_initialised(pv, fn, q, name, loop):
    """The local `name` is bound before `loop` to an empty collection (True), to a non-empty literal collection (False), or to
    something else / nothing (None)."""
    for st in fn.body:
        if st is loop:
            break
        if isinstance(st, ast.Assign) and any(isinstance(t, ast.Name) and t.id == name for t in st.targets):
            v = st.value
            if (isinstance(v, (ast.List, ast.Set, ast.Tuple)) and not v.elts) or (isinstance(v, ast.Dict) and not v.keys) \
                    or (isinstance(v, ast.Call) and dotted(v.func) in ('set', 'list', 'dict') and not v.args and not v.keywords):
                return True
            if isinstance(v, (ast.List, ast.Set, ast.Tuple, ast.Dict)) or (isinstance(v, ast.Call) and dotted(v.func) in ('set', 'list', 'dict', 'frozenset')):
                return False
            return None
    return None


def run(repo, tier):
    facts = Facts(repo.asm)
    rep = Report('C14', LEVEL,
                 'cwd-sensitivity effect analysis: every filesystem call reachable from assemble() (call edges, closures, functions used as '
                 'values) is classified by the provenance kinds of its path argument (Resolved = search dir joined with the name; UserGiven = '
                 'the caller\'s own path; RawToken = text cut out of a source line; Literal), computed by a reaching-definitions dataflow with '
                 'interprocedural summaries; only the first two may reach a sink, and os.getcwd() may be consulted only where '
                 'os.path.exists(<caller\'s input>) was false.  The recursive read passes the resolved path, as a file, and a directory list '
                 'holding the caller\'s -i directories only; every include search ranges over the -i directories and the directory of the '
                 'including file; the caller\'s list object is never changed in place; included lines are spliced at the position of the '
                 'include line (append/extend only); the CLI hands assemble() an absolute input path and absolute directories.')
    rep.trusted_base = ['CPython ast', 'bbverif.prov kind rules', 'bbverif.callgraph / pathwalk']
    rep.not_decided = ['equality of the resulting binaries / labels / constants (follows from splice order + purity of later passes, C16, not re-proved end to end)',
                       'which directory wins when the same name exists in several']
    cg = CallGraph(facts)
    pv = Prov(facts, cg)
    if 'assemble' not in cg.funcs:
        raise AnalysisError('anchor vanished: assemble')
    reach = sorted(pv.reach('assemble'))
    check_sinks(rep, facts, cg, pv, 'R14.1.provenance', reach)
    check_reader(rep, facts, cg, pv, reach)
    check_cli(rep, facts, cg, pv)
    raise_deferred(rep)
    # what the rule needs to have seen (not a count of syntactic sites: a refactor may merge probes): the source file and the
    # include_bytes content are read, the caller's own path is probed / opened, the search result is probed and measured / read
    rep.floor('filesystem sinks reachable from assemble', 4)
    rep.floor('sinks that read a file', 2)
    rep.floor('sinks given the caller\'s own path', 1)
    rep.floor('sinks given a path the include search returned', 2)
    rep.floor('recursive include calls', 1)
    rep.floor('include search sites', 1)
    rep.floor('include paths through the reader loop', 1)
    rep.floor('cli include dir sources', 2)
    return rep
