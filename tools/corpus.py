#!/venv/bin/python
"""Regression corpus of whole-tree changes (developer tool, not a registered check).

  seeded/<id>/patch.diff       property-breaking change       -> the check of meta.json's breaks_property must exit 1
  preserving/<id>/patch.diff   behaviour-preserving refactor  -> every check must exit 0 (exit 2 = no verdict is reported, exit 1 = false alarm)

Each patch is applied to a scratch copy of /repo's analysed files under $(mktemp -d) (never to /repo itself), the checks run with
--repo <copy> --no-evidence, and the copy is removed.   tools/corpus.py [--only ID,ID] [--props C03,C08] [--kind seeded|preserving] [--materialise DIR]
"""
import argparse
import concurrent.futures
import json
import os
import shutil
import subprocess
import sys
import tempfile

VERIF = os.path.dirname(os.path.dirname(os.path.abspath(__file__)))
PY = '/venv/bin/python'
ALL = ['C%02d' % i for i in range(1, 21)]


def make_tree(repo, patch, dest=None):
    d = dest or tempfile.mkdtemp(prefix='bbverif-corpus-')
    os.makedirs(d, exist_ok=True)
    for sub in ('bronzebeard', 'docs'):
        if os.path.exists(os.path.join(d, sub)):
            shutil.rmtree(os.path.join(d, sub))
        shutil.copytree(os.path.join(repo, sub), os.path.join(d, sub), ignore=shutil.ignore_patterns('__pycache__', 'libs'))
    r = subprocess.run(['git', 'apply', '--include=bronzebeard/*', '--include=docs/*', os.path.abspath(patch)], cwd=d, capture_output=True, text=True)
    if r.returncode != 0:
        shutil.rmtree(d, ignore_errors=True)
        raise RuntimeError('cannot apply {}: {}'.format(patch, r.stderr.strip()[:300]))
    return d


def run_check(prop, tree):
    r = subprocess.run([PY, os.path.join(VERIF, 'bbverif', 'check.py'), prop, '--repo', tree, '--no-evidence'], capture_output=True, text=True)
    lines = [l.strip() for l in (r.stdout + r.stderr).splitlines() if l.strip().startswith('finding') or l.startswith('ANALYSIS-ERROR')]
    return r.returncode, (lines[0][:230] if lines else '')


def evaluate(entry, repo, props):
    kind, cid, patch, target = entry
    try:
        tree = make_tree(repo, patch)
    except RuntimeError as e:
        return entry, {p: (None, 'patch does not apply to the current tree: ' + str(e)[-120:]) for p in props}
    try:
        res = {p: run_check(p, tree) for p in props}
    finally:
        shutil.rmtree(tree, ignore_errors=True)
    return entry, res


def main():
    ap = argparse.ArgumentParser()
    ap.add_argument('--repo', default='/repo')
    ap.add_argument('--only')
    ap.add_argument('--props')
    ap.add_argument('--kind')
    ap.add_argument('--materialise', help='write the patched trees under DIR/<id> and exit (the caller removes them)')
    ap.add_argument('-v', action='store_true')
    args = ap.parse_args()
    entries = []
    for kind in ('seeded', 'preserving'):
        base = os.path.join(VERIF, kind)
        if not os.path.isdir(base) or (args.kind and args.kind != kind):
            continue
        ids = sorted(os.listdir(base))
        if kind == 'preserving' and os.path.isdir(os.path.join(base, 'micro')):
            ids += ['micro/' + x for x in sorted(os.listdir(os.path.join(base, 'micro')))]
        for cid in ids:
            patch = os.path.join(base, cid, 'patch.diff')
            if not os.path.exists(patch):
                continue
            target = None
            mp = os.path.join(base, cid, 'meta.json')
            if os.path.exists(mp):
                target = json.load(open(mp)).get('breaks_property')
            entries.append((kind, cid, patch, target))
    if args.only:
        want = set(args.only.split(','))
        entries = [e for e in entries if e[1] in want]
    if args.materialise:
        for kind, cid, patch, target in entries:
            make_tree(args.repo, patch, os.path.join(args.materialise, cid))
            print(os.path.join(args.materialise, cid))
        return 0
    props = args.props.split(',') if args.props else None
    bad = 0
    with concurrent.futures.ThreadPoolExecutor(max_workers=8) as ex:
        futs = []
        for e in entries:
            ps = props or (ALL if e[0] == 'preserving' else [e[3]] if not args.v else ALL)
            futs.append(ex.submit(evaluate, e, args.repo, ps))
        for f in futs:
            (kind, cid, patch, target), res = f.result()
            if kind == 'seeded':
                if target not in res:
                    continue
                rc = res.get(target, (None, ''))[0]
                verdict = {1: 'caught', 2: 'UNDECIDED', 0: 'MISSED', None: 'not run'}[rc]
                if rc is None and target in res and res[target][1].startswith('patch does not apply'):
                    verdict = 'superseded (patch no longer applies)'
                others = [p for p, (c, _) in res.items() if c == 1 and p != target]
                print('seeded     {:6} breaks {}  {}{}'.format(cid, target, verdict, '  also: ' + ','.join(others) if others else ''))
                if rc != 1 and rc is not None:
                    bad += 1
                    print('      ', res[target][1])
            else:
                if any(c is None and m.startswith('patch does not apply') for c, m in res.values()):
                    print('preserving {:6} PATCH DOES NOT APPLY to the current tree'.format(cid))
                    bad += 1
                    continue
                alarms = [p for p, (c, _) in res.items() if c == 1]
                undec = [p for p, (c, _) in res.items() if c == 2]
                print('preserving {:14} false alarms: {}  undecided: {}'.format(cid, ','.join(alarms) or '-', ','.join(undec) or '-'))
                bad += len(alarms)
                if args.v:
                    for p in alarms + undec:
                        print('       {} {}'.format(p, res[p][1]))
    return 1 if bad else 0


if __name__ == '__main__':
    sys.exit(main())
