#!/usr/bin/env python
"""Behavioural equivalence check for the bronzebeard/dfu.py refactor.

Loads the ORIGINAL module (``git show HEAD:bronzebeard/dfu.py``) and the
refactored working-tree module under two different names and drives both
``cli_main`` functions against a scripted fake USB device.  For every case
the following must be identical:

* the full trace: usb.backend.libusb1.get_backend / usb.core.find calls,
  every read of dev.serial_number, every ctrl_transfer (raw args + kwargs AND
  the arguments normalised through the real pyusb signature, payload bytes
  included) and every time.sleep (repr of the value, so 0 != 0.0)
* stdout and stderr, byte for byte
* the outcome: normal return / SystemExit(code) / exception type + message,
  plus the derived process exit status

Finally a handful of deliberately broken copies of the original ("mutants")
are run through the same matrix; each one must be flagged as different,
which shows the matrix is actually sensitive to the things it claims to check.

Exit status 0 iff everything matches and every mutant is caught.
"""

import array
import contextlib
import importlib.util
import inspect
import io
import os
import random
import shutil
import subprocess
import sys
import tempfile
import time

import usb.core
import usb.backend.libusb1

HERE = os.path.dirname(os.path.abspath(__file__))
REFACTORED_PATH = os.path.join(HERE, 'bronzebeard', 'dfu.py')

REAL_CTRL_TRANSFER_SIG = inspect.signature(usb.core.Device.ctrl_transfer)

# DFU states / requests (duplicated on purpose: independent from both modules)
ST_IDLE, ST_DNLOAD_SYNC, ST_DNBUSY, ST_DNLOAD_IDLE = 2, 3, 4, 5
ST_MANIFEST_SYNC, ST_MANIFEST, ST_UPLOAD_IDLE, ST_ERROR = 6, 7, 9, 10
REQ_DNLOAD, REQ_GETSTATUS, REQ_CLRSTATUS = 1, 3, 4

BACKEND_SENTINEL = object()

GD32_ID = '28e9:0189'


def encode_serial(text):
    """Inverse of the quirk in dfu.py: text == result.encode('utf-16-le').decode('utf-8')."""
    return text.encode('utf-8').decode('utf-16-le')


# serial -> flash size in bytes
GD32_VARIANTS = [
    ('3CBJ', 128 * 1024),
    ('3C8J', 64 * 1024),
    ('3C6J', 32 * 1024),
    ('3C4J', 16 * 1024),
]


# --------------------------------------------------------------------------
# module loading
# --------------------------------------------------------------------------

def load_module(name, path):
    spec = importlib.util.spec_from_file_location(name, path)
    mod = importlib.util.module_from_spec(spec)
    spec.loader.exec_module(mod)
    # both modules must believe they live at the same place (only matters for
    # the win32 bundled-library path, which is derived from __file__)
    mod.__file__ = REFACTORED_PATH
    return mod


def original_source():
    return subprocess.check_output(
        ['git', 'show', 'HEAD:bronzebeard/dfu.py'], cwd=HERE).decode('utf-8')


def load_source(name, source, tmpdir):
    path = os.path.join(tmpdir, name + '.py')
    with open(path, 'w', encoding='utf-8') as f:
        f.write(source)
    return load_module(name, path)


# --------------------------------------------------------------------------
# fake device
# --------------------------------------------------------------------------

class Schedule:
    """Scripted behaviour of the fake device.

    GETSTATUS answers are looked up by (last_op, op_index, poll) where last_op
    is one of 'start', 'clr', 'erase', 'setaddr', 'download', 'other',
    op_index counts operations of that kind and poll counts the GETSTATUS
    requests since that operation.
    """

    def __init__(self, name, init=(0, 0, ST_IDLE), after_clear=(0, 0, ST_IDLE),
                 busy=0, busy_timeout=0, final_timeout=0, download_prefix=(),
                 overrides=None, sticky_error=False, short_count=None,
                 bad_response=None, rng_seed=None, serial_error=None):
        self.name = name
        self.init = init
        self.after_clear = after_clear
        self.busy = busy
        self.busy_timeout = busy_timeout
        self.final_timeout = final_timeout
        self.download_prefix = tuple(download_prefix)
        self.overrides = dict(overrides or {})
        self.sticky_error = sticky_error
        self.short_count = short_count      # (kind, index) -> return count - 1
        self.bad_response = bad_response    # (kind, index, poll) -> 5 byte answer
        self.rng_seed = rng_seed

    def fresh(self):
        return ScheduleState(self)


class ScheduleState:
    RANDOM_STATES = [ST_DNBUSY] * 4 + [ST_DNLOAD_IDLE] * 6 + [
        ST_ERROR, ST_DNLOAD_SYNC, ST_IDLE, ST_MANIFEST_SYNC, ST_MANIFEST, ST_UPLOAD_IDLE]
    RANDOM_TIMEOUTS = [0, 0, 0, 1, 5, 255, 256, 1000, 65535, 65536, 0x123456, 0xFFFFFF]

    def __init__(self, schedule):
        self.s = schedule
        self.stuck = None
        self.rng = random.Random(schedule.rng_seed) if schedule.rng_seed is not None else None

    def getstatus(self, key):
        s = self.s
        if self.rng is not None:
            status = 0 if self.rng.random() < 0.9 else self.rng.randrange(1, 16)
            return (status, self.rng.choice(self.RANDOM_TIMEOUTS), self.rng.choice(self.RANDOM_STATES))
        if key in s.overrides:
            answer = s.overrides[key]
            if s.sticky_error and answer[2] == ST_ERROR:
                self.stuck = answer
            return answer
        kind, _, poll = key
        if kind == 'clr':
            self.stuck = None
            return s.after_clear
        if self.stuck is not None:
            return self.stuck
        if kind == 'start':
            return s.init
        prefix = s.download_prefix if kind == 'download' else ()
        if poll < len(prefix):
            return (0, s.busy_timeout, prefix[poll])
        if poll < len(prefix) + s.busy:
            return (0, s.busy_timeout, ST_DNBUSY)
        return (0, s.final_timeout, ST_DNLOAD_IDLE)


class FakeDevice:
    MAX_TRANSFERS = 4000

    def __init__(self, trace, serial, schedule):
        self.trace = trace
        self.serial = serial
        self.schedule = schedule
        self.state = schedule.fresh()
        self.last_op = 'start'
        self.op_index = 0
        self.poll = 0
        self.op_counts = {}
        self.transfers = 0

    @property
    def serial_number(self):
        self.trace.append(('serial_number',))
        if isinstance(self.serial, BaseException):
            raise self.serial
        return self.serial

    @staticmethod
    def _freeze(value):
        if isinstance(value, (bytes, bytearray, array.array, memoryview)):
            return (type(value).__name__, bytes(value))
        return (type(value).__name__, value)

    def _begin_op(self, kind):
        self.last_op = kind
        self.op_index = self.op_counts.get(kind, 0)
        self.op_counts[kind] = self.op_index + 1
        self.poll = 0

    def ctrl_transfer(self, *args, **kwargs):
        raw = ('ctrl_raw',
               tuple(self._freeze(a) for a in args),
               tuple(sorted((k, self._freeze(v)) for k, v in kwargs.items())))
        bound = REAL_CTRL_TRANSFER_SIG.bind(self, *args, **kwargs)
        bound.apply_defaults()
        a = bound.arguments
        norm = ('ctrl', a['bmRequestType'], a['bRequest'], a['wValue'], a['wIndex'],
                self._freeze(a['data_or_wLength']), a['timeout'])
        self.trace.append(raw)
        self.trace.append(norm)

        self.transfers += 1
        if self.transfers > self.MAX_TRANSFERS:
            raise RuntimeError('fake device: too many transfers')

        request = a['bRequest']
        data = a['data_or_wLength']
        if request == REQ_GETSTATUS:
            key = (self.last_op, self.op_index, self.poll)
            self.poll += 1
            status, timeout_ms, state = self.state.getstatus(key)
            answer = array.array('B', [status]) + array.array('B', timeout_ms.to_bytes(3, 'little')) \
                + array.array('B', [state, 0])
            if self.schedule.bad_response == key:
                answer = answer[:5]
            self.trace.append(('answer', bytes(answer)))
            return answer

        if request == REQ_CLRSTATUS:
            self._begin_op('clr')
        elif request == REQ_DNLOAD:
            payload = bytes(data)
            if a['wValue'] == 0 and len(payload) == 5 and payload[0] == 0x41:
                self._begin_op('erase')
            elif a['wValue'] == 0 and len(payload) == 5 and payload[0] == 0x21:
                self._begin_op('setaddr')
            elif a['wValue'] == 2:
                self._begin_op('download')
            else:
                self._begin_op('other')
        else:
            self._begin_op('other')

        count = len(data)
        if self.schedule.short_count == (self.last_op, self.op_index):
            count -= 1
        return count


# --------------------------------------------------------------------------
# running one cli_main under full instrumentation
# --------------------------------------------------------------------------

class Case:
    def __init__(self, name, argv, serial=None, schedule=None, found=True, platform=None):
        self.name = name
        self.argv = argv
        self.serial = serial
        self.schedule = schedule or Schedule('immediate')
        self.found = found
        self.platform = platform


def run_case(mod, case):
    trace = []
    dev = FakeDevice(trace, case.serial, case.schedule) if case.found else None

    def fake_find(*args, **kwargs):
        kwargs = dict(kwargs)
        backend_ok = kwargs.pop('backend', None) is BACKEND_SENTINEL
        trace.append(('find', args, tuple(sorted(kwargs.items())), backend_ok))
        return dev

    def fake_get_backend(*args, **kwargs):
        probed = tuple(sorted(
            (k, v('usb-1.0') if callable(v) else v) for k, v in kwargs.items()))
        trace.append(('get_backend', args, probed))
        return BACKEND_SENTINEL

    def fake_sleep(seconds):
        trace.append(('sleep', repr(seconds)))

    saved = (usb.core.find, usb.backend.libusb1.get_backend, time.sleep, sys.argv, sys.platform)
    out, err = io.StringIO(), io.StringIO()
    try:
        usb.core.find = fake_find
        usb.backend.libusb1.get_backend = fake_get_backend
        time.sleep = fake_sleep
        sys.argv = list(case.argv)
        if case.platform is not None:
            sys.platform = case.platform
        with contextlib.redirect_stdout(out), contextlib.redirect_stderr(err):
            try:
                mod.cli_main()
                outcome = ('return', None, 0)
            except SystemExit as e:
                if e.code is None:
                    exit_status = 0
                elif isinstance(e.code, int):
                    exit_status = e.code
                else:
                    exit_status = 1
                outcome = ('SystemExit', repr(e.code), exit_status)
            except BaseException as e:  # noqa: uncaught -> traceback, exit status 1
                outcome = ('exception', type(e).__name__ + ': ' + str(e), 1)
    finally:
        (usb.core.find, usb.backend.libusb1.get_backend, time.sleep, sys.argv, sys.platform) = saved
    return {'trace': trace, 'stdout': out.getvalue(), 'stderr': err.getvalue(), 'outcome': outcome}


# --------------------------------------------------------------------------
# the case matrix
# --------------------------------------------------------------------------

class Firmware:
    def __init__(self, tmpdir):
        self.tmpdir = tmpdir
        self.paths = {}

    def path(self, length):
        if length not in self.paths:
            # never zero, so that padding is distinguishable from content
            data = bytes(((i * 7 + (i >> 8) * 13) % 255) + 1 for i in range(length))
            path = os.path.join(self.tmpdir, 'fw_{}.bin'.format(length))
            with open(path, 'wb') as f:
                f.write(data)
            self.paths[length] = path
        return self.paths[length]


def base_schedules():
    err = ST_ERROR
    return [
        Schedule('immediate'),
        Schedule('busy1', busy=1),
        Schedule('busy3', busy=3),
        Schedule('busy2-timeouts', busy=2, busy_timeout=5, final_timeout=1),
        Schedule('timeout-255', final_timeout=255),
        Schedule('timeout-256', busy=1, busy_timeout=256, final_timeout=0x0100),
        Schedule('timeout-65536', busy=1, busy_timeout=0x010000, final_timeout=0x010203),
        Schedule('timeout-max', final_timeout=0xFFFFFF),
        Schedule('download-sync-prefix', busy=1, download_prefix=(ST_DNLOAD_SYNC,)),
        Schedule('download-odd-prefix', download_prefix=(ST_IDLE, ST_MANIFEST_SYNC, ST_DNLOAD_SYNC)),
        Schedule('start-in-error', init=(10, 0, err)),
        Schedule('start-in-error-timeouts', init=(14, 7, err), after_clear=(0, 3, ST_IDLE), busy=1),
        Schedule('start-in-error-stays', init=(10, 0, err), after_clear=(10, 0, err)),
        Schedule('start-in-error-then-dnload-idle', init=(3, 0, err), after_clear=(0, 0, ST_DNLOAD_IDLE)),
        Schedule('start-in-error-then-unknown-state', init=(3, 0, err), after_clear=(0, 0, 11)),
        Schedule('start-status-bad-state-idle', init=(7, 0, ST_IDLE)),
        Schedule('start-busy', init=(0, 2, ST_DNBUSY)),
    ]


def injection_schedules(pages):
    """Error status injected at each erase / set-address / download step."""
    if pages <= 6:
        indices = list(range(pages))
    else:
        indices = sorted({0, 1, pages // 2, pages - 2, pages - 1})
    out = []
    status_cycle = 0
    for kind in ('erase', 'setaddr', 'download'):
        for index in indices:
            for busy in (0, 2):
                status_cycle = status_cycle % 15 + 1
                st = status_cycle
                tag = '{}[{}]-busy{}'.format(kind, index, busy)
                # error on the final poll, state dfuERROR (sticky and not)
                out.append(Schedule('err-final-' + tag, busy=busy, sticky_error=True,
                                    overrides={(kind, index, busy): (st, 0, ST_ERROR)}))
                out.append(Schedule('err-final-nonsticky-' + tag, busy=busy,
                                    overrides={(kind, index, busy): (st, 3, ST_ERROR)}))
                # non-zero status but the state looks fine
                out.append(Schedule('err-status-only-' + tag, busy=busy,
                                    overrides={(kind, index, busy): (st, 0, ST_DNLOAD_IDLE)}))
                # error while another state than idle/error/busy is reported
                out.append(Schedule('err-sync-state-' + tag, busy=busy,
                                    overrides={(kind, index, busy): (st, 0, ST_DNLOAD_SYNC)}))
                if busy:
                    # non-zero status on a NON-final (busy) poll
                    out.append(Schedule('err-while-busy-' + tag, busy=busy,
                                        overrides={(kind, index, 0): (st, 0, ST_DNBUSY)}))
                    # error state cutting the busy phase short
                    out.append(Schedule('err-early-' + tag, busy=busy, sticky_error=True,
                                        overrides={(kind, index, 0): (st, 0, ST_ERROR)}))
            # status code without a description
            out.append(Schedule('err-unknown-status-{}[{}]'.format(kind, index),
                                overrides={(kind, index, 0): (16, 0, ST_ERROR)}))
            # short writes and truncated GETSTATUS answers
            out.append(Schedule('short-count-{}[{}]'.format(kind, index), short_count=(kind, index)))
            out.append(Schedule('bad-response-{}[{}]'.format(kind, index), busy=1,
                                bad_response=(kind, index, 1)))
    return out


def build_cases(fw, quick=False):
    cases = []

    def gd32(name, serial_text, length, schedule, **kw):
        return Case(name, ['bronzebeard-dfu', GD32_ID, fw.path(length)],
                    serial=encode_serial(serial_text), schedule=schedule, **kw)

    # 1. lengths x base schedules x variants
    for serial_text, flash in GD32_VARIANTS:
        lengths = [0, 1, 1023, 1024, 1025, 2047, 2048, 2049, 3000, 5 * 1024, 7 * 1024 + 512,
                   flash - 1025, flash - 1024, flash - 1023, flash - 1, flash,
                   flash + 1, flash + 1023, flash + 1024, flash + 1025, 2 * flash]
        for length in lengths:
            for schedule in base_schedules():
                cases.append(gd32('{}/len{}/{}'.format(serial_text, length, schedule.name),
                                  serial_text, length, schedule))

    # 2. error injection at every step
    for serial_text, flash in GD32_VARIANTS:
        lengths = [1, 1024, 1025, 3 * 1024, 5 * 1024 - 1]
        if serial_text in ('3CBJ', '3C4J'):
            lengths += [flash - 1, flash]
        for length in lengths:
            pages = (length + 1023) // 1024
            for schedule in injection_schedules(pages):
                cases.append(gd32('{}/len{}/{}'.format(serial_text, length, schedule.name),
                                  serial_text, length, schedule))

    # 3. randomly behaving devices
    for seed in range(40 if quick else 400):
        serial_text, flash = GD32_VARIANTS[seed % 4]
        length = random.Random(seed).choice([1, 1000, 1024, 1500, 4096, 6000, 10 * 1024 + 1, flash])
        cases.append(gd32('{}/len{}/random{}'.format(serial_text, length, seed),
                          serial_text, length, Schedule('random', rng_seed=seed)))

    # 4. start-up paths
    small = fw.path(1500)
    for text in ['3CXJ', '3C', '', 'GD', '3CbJ', '3CéJ', 'ABCDEFGH', '€€€']:
        cases.append(Case('serial/' + repr(text), ['bronzebeard-dfu', GD32_ID, small],
                          serial=encode_serial(text) if len(text.encode()) % 2 == 0 else text))
    cases.append(Case('serial/undecodable', ['bronzebeard-dfu', GD32_ID, small], serial='é'))
    cases.append(Case('serial/lone-surrogate', ['bronzebeard-dfu', GD32_ID, small], serial='\ud800'))
    cases.append(Case('serial/None', ['bronzebeard-dfu', GD32_ID, small], serial=None))
    cases.append(Case('serial/raises', ['bronzebeard-dfu', GD32_ID, small],
                      serial=ValueError('The device has no langid')))
    good = encode_serial('3CBJ')
    cases.append(Case('not-found', ['bronzebeard-dfu', GD32_ID, small], found=False))
    cases.append(Case('not-found-other-id', ['bronzebeard-dfu', '1234:abcd', small], found=False))
    cases.append(Case('non-gd32-device', ['bronzebeard-dfu', '1234:abcd', small], serial=good))
    cases.append(Case('gd32-vendor-only', ['bronzebeard-dfu', '28e9:0188', small], serial=good))
    cases.append(Case('gd32-product-only', ['bronzebeard-dfu', '28e8:0189', small], serial=good))
    cases.append(Case('id-upper-case', ['bronzebeard-dfu', '28E9:0189', small], serial=good))
    cases.append(Case('id-0x-prefix', ['bronzebeard-dfu', '0x28e9:0x0189', small], serial=good))
    cases.append(Case('id-no-colon', ['bronzebeard-dfu', '28e90189', small], serial=good))
    cases.append(Case('id-two-colons', ['bronzebeard-dfu', '28e9:0189:1', small], serial=good))
    cases.append(Case('id-not-hex', ['bronzebeard-dfu', '28e9:wxyz', small], serial=good))
    cases.append(Case('id-empty', ['bronzebeard-dfu', '', small], serial=good))
    cases.append(Case('missing-file', ['bronzebeard-dfu', GD32_ID, os.path.join(fw.tmpdir, 'nope.bin')],
                      serial=good))
    cases.append(Case('file-is-directory', ['bronzebeard-dfu', GD32_ID, fw.tmpdir], serial=good))
    cases.append(Case('no-args', ['bronzebeard-dfu']))
    cases.append(Case('one-arg', ['bronzebeard-dfu', GD32_ID]))
    cases.append(Case('three-args', ['bronzebeard-dfu', GD32_ID, small, 'extra']))
    cases.append(Case('help', ['bronzebeard-dfu', '-h']))
    cases.append(Case('win32', ['bronzebeard-dfu', GD32_ID, small], serial=good, platform='win32'))
    cases.append(Case('win32-not-found', ['bronzebeard-dfu', GD32_ID, small], found=False, platform='win32'))
    cases.append(Case('darwin', ['bronzebeard-dfu', GD32_ID, small], serial=good, platform='darwin'))
    return cases


# --------------------------------------------------------------------------
# comparison
# --------------------------------------------------------------------------

def first_difference(a, b):
    for field in ('outcome', 'stdout', 'stderr'):
        if a[field] != b[field]:
            return '{}: {!r} != {!r}'.format(field, a[field], b[field])
    ta, tb = a['trace'], b['trace']
    for i, (x, y) in enumerate(zip(ta, tb)):
        if x != y:
            return 'trace[{}]: {!r} != {!r}'.format(i, x, y)
    if len(ta) != len(tb):
        return 'trace length: {} != {}'.format(len(ta), len(tb))
    return None


def compare(mod_a, mod_b, cases, stop_at_first=False, stats=None):
    mismatches = []
    for case in cases:
        a = run_case(mod_a, case)
        b = run_case(mod_b, case)
        if stats is not None:
            stats['cases'] += 1
            stats['transfers'] += sum(1 for e in a['trace'] if e[0] == 'ctrl')
            stats['sleeps'] += sum(1 for e in a['trace'] if e[0] == 'sleep')
            stats['outcomes'][a['outcome'][0] + ':' + str(a['outcome'][1])[:48]] = \
                stats['outcomes'].get(a['outcome'][0] + ':' + str(a['outcome'][1])[:48], 0) + 1
        diff = first_difference(a, b)
        if diff is not None:
            mismatches.append((case.name, diff))
            if stop_at_first:
                break
    return mismatches


MUTANTS = [
    ('download wValue', 'wValue=2,', 'wValue=0,', 1),
    ('download done states', '[STATE_DFU_DNLOAD_IDLE, STATE_DFU_ERROR]', '[STATE_DFU_DNLOAD_IDLE]', 1),
    ('poll timeout scale', 'poll_timeout / 1000', 'poll_timeout / 1001', 1),
    ('poll timeout high byte', 'pt2 << 16 | pt1 << 8 | pt0', 'pt1 << 8 | pt0', 1),
    ('padding byte', "firmware += b'\\x00'", "firmware += b'\\xff'", 1),
    ('oversize off by one', 'len(firmware) > (page_size', 'len(firmware) >= (page_size', 1),
    ('erase status unchecked', "        if status != STATUS_OK:\n            print()\n            raise SystemExit('error erasing",
     "        if False:\n            print()\n            raise SystemExit('error erasing", 1),
    ('write status unchecked', "        if status != STATUS_OK:\n            print()\n            raise SystemExit('error writing",
     "        if False:\n            print()\n            raise SystemExit('error writing", 1),
    ('set-address status checked', "        # write the code chunk\n",
     "        if status != STATUS_OK:\n            print()\n            raise SystemExit('error writing page: {}'.format(STATUS_DESCRIPTION[status]))\n", 1),
    ('page count 64', 'page_count = 64', 'page_count = 63', 1),
    ('page count 16', 'page_count = 16', 'page_count = 17', 1),
    ('erase command', 'DFUSE_CMD_ERASE_PAGE = 0x41', 'DFUSE_CMD_ERASE_PAGE = 0x42', 1),
    ('erase base address', '        start = 0x08000000', '        start = 0x08000400', 1),
    ('write base address', 'addr_start = 0x08000000', 'addr_start = 0x08000001', 1),
    ('state description not printed', '        print(STATE_DESCRIPTION[state])\n', '', 1),
    ('no second get_status after clear', "        dfu_clear_status(dev)\n        status, state = dfu_get_status(dev)\n",
     "        dfu_clear_status(dev)\n", 1),
    ('usb timeout', 'timeout=1000)', 'timeout=1001)', 1),
    ('erase busy loop once', "        dfuse_erase_page(dev, addr)\n\n        # poll state til not busy\n        status, state = dfu_get_status(dev)\n        while state",
     "        dfuse_erase_page(dev, addr)\n\n        # poll state til not busy\n        status, state = dfu_get_status(dev)\n        if state", 1),
    ('sleep skipped when zero', '    time.sleep(poll_timeout)\n', '    if poll_timeout:\n        time.sleep(poll_timeout)\n', 1),
    ('padding message', "print('padding:', page_size - rem)", "print('padding:', (page_size - rem) % page_size)", 1),
    ('exit message', 'Firmware file is too large for device', 'Firmware file is too large', 1),
    ('serial index', "sn[2] == 'B'", "sn[1] == 'B'", 1),
]


def main():
    quick = '--quick' in sys.argv[1:]
    skip_mutants = '--no-mutants' in sys.argv[1:]
    tmpdir = tempfile.mkdtemp(prefix='dfu_equiv_')
    try:
        source = original_source()
        with open(REFACTORED_PATH, encoding='utf-8') as f:
            if f.read() == source:
                print('WARNING: working tree dfu.py is identical to HEAD (nothing refactored?)')
        original = load_source('dfu_original', source, tmpdir)
        refactored = load_module('dfu_refactored', REFACTORED_PATH)
        for name in ('dfu_get_status', 'dfu_clear_status', 'dfuse_erase_page',
                     'dfuse_set_address', 'dfuse_download', 'cli_main'):
            assert callable(getattr(refactored, name)), name

        fw = Firmware(tmpdir)
        cases = build_cases(fw, quick=quick)

        stats = {'cases': 0, 'transfers': 0, 'sleeps': 0, 'outcomes': {}}
        mismatches = compare(original, refactored, cases, stats=stats)
        print('cases: {cases}, ctrl_transfers per side: {transfers}, sleeps per side: {sleeps}'.format(**stats))
        print('outcomes seen (original):')
        for key, n in sorted(stats['outcomes'].items(), key=lambda kv: -kv[1]):
            print('  {:6d}  {}'.format(n, key))
        assert stats['transfers'] > 10000 or quick, 'matrix suspiciously small'

        ok = True
        if mismatches:
            ok = False
            print('MISMATCHES original vs refactored: {}'.format(len(mismatches)))
            for name, diff in mismatches[:25]:
                print('  {}: {}'.format(name, diff))
        else:
            print('original vs refactored: all {} cases identical '
                  '(trace, stdout, stderr, outcome, exit status)'.format(len(cases)))

        # a module must of course be equivalent to itself: guards against
        # non-determinism in the harness
        self_mismatches = compare(original, original, cases[::17])
        if self_mismatches:
            ok = False
            print('HARNESS NOT DETERMINISTIC:', self_mismatches[:3])

        if not skip_mutants:
            caught = 0
            for i, (name, old, new, expected_count) in enumerate(MUTANTS):
                assert source.count(old) >= expected_count, 'mutant pattern not found: ' + name
                mutated = source.replace(old, new, 1)
                mutant = load_source('dfu_mutant_{}'.format(i), mutated, tmpdir)
                found = compare(original, mutant, cases, stop_at_first=True)
                if found:
                    caught += 1
                    print('mutant caught   [{}] at {}'.format(name, found[0][0]))
                else:
                    ok = False
                    print('mutant SURVIVED [{}]'.format(name))
            print('mutants caught: {}/{}'.format(caught, len(MUTANTS)))

        print('RESULT:', 'EQUIVALENT' if ok else 'NOT EQUIVALENT / CHECK FAILED')
        return 0 if ok else 1
    finally:
        shutil.rmtree(tmpdir, ignore_errors=True)


if __name__ == '__main__':
    sys.exit(main())
