"""The layout invariant L1-L5 (DESIGN §4) discharged per path of each pass; used by C03 C08 C09 C20."""
import ast

from .core import AnalysisError, Finding
from .astutil import unparse, dotted
from .pathwalk import loop_paths, show, is_const, C
from .layout import Sizes, LinS, account, pipeline, table_param
from . import encprops

LABEL_PASSES_EXPECTED = ['resolve_labels', 'transform_compressible', 'transform_pseudo_instructions', 'resolve_aligns']


def returned_list(fn):
    rets = [n for n in ast.walk(fn) if isinstance(n, ast.Return) and n.value is not None]
    rets = [r for r in rets if isinstance(r.value, ast.Name)]
    top = [s for s in fn.body if isinstance(s, ast.Return)]
    if top and isinstance(top[-1].value, ast.Name):
        return top[-1].value.id
    return None


def mnemonic_classes(facts):
    """{mnemonic: set of concrete instruction classes parse_item builds for it (pseudo excluded)}"""
    cls_tables, _ = encprops.class_tables(facts)
    tables = facts.instruction_tables()
    out = {}
    for cls, tnames in cls_tables.items():
        if cls == 'PseudoInstruction':
            continue
        for t in tnames:
            for m in tables.get(t, {}):
                out.setdefault(m, set()).add(cls)
    return out


def criteria_of_path(path):
    """(key, [predicate values]) for the criteria rule matched on this path, or None."""
    key = None
    table = None
    for ev in path.events:
        if ev[0] == 'search':
            table = ev[1][1] if ev[1][0] == 'mcall' else None
        if ev[0] == 'matched':
            key = ev[1][1]
    if key is None or table is None or table[0] != 'dict':
        return None
    for k, v in table[1]:
        if is_const(k) and k[1] == key:
            if v[0] not in ('list', 'tuple'):
                raise AnalysisError('criteria[{!r}] is not a literal list'.format(key))
            return key, list(v[1])
    return None


IN_ORDER_WRAPPERS = ('list', 'tuple', 'iter')


def in_order_source(it):
    """The expression a loop really walks, in order: X for `X`, `list(X)`, `tuple(X)`, `iter(X)`, `enumerate(X[, start])`."""
    while isinstance(it, ast.Call) and isinstance(it.func, ast.Name) and it.args and not any(isinstance(a, ast.Starred) for a in it.args):
        if it.func.id in IN_ORDER_WRAPPERS and len(it.args) == 1 and not it.keywords:
            it = it.args[0]
        elif it.func.id == 'enumerate' and len(it.args) <= 2:
            it = it.args[0]
        else:
            break
    return it


def loop_item(loop):
    """('item', name) of the variable that holds the element in `for x in X` / `for i, x in enumerate(X)`, else None."""
    tgt, it = loop.target, loop.iter
    if isinstance(tgt, ast.Name):
        return ('item', tgt.id)
    if (isinstance(tgt, (ast.Tuple, ast.List)) and len(tgt.elts) == 2 and isinstance(tgt.elts[1], ast.Name)
            and isinstance(it, ast.Call) and isinstance(it.func, ast.Name) and it.func.id == 'enumerate'):
        return ('item', tgt.elts[1].id)
    return None


class PassAnalysis:
    def __init__(self, facts, fname, incoming=None):
        self.facts = facts
        self.fname = fname
        self.fn = facts.funcs.get(fname)
        if self.fn is None:
            raise AnalysisError('anchor vanished: pass {}'.format(fname))
        self.sizes = Sizes(facts, incoming)
        _, self.loop, self.paths = loop_paths(facts, self.fn)
        self.walker = self.paths[0].walker if self.paths else None
        # the function that contains the item loop: the pass itself, or the higher-order skeleton it delegates to
        self.loop_fn = getattr(self.paths[0], 'loop_fn', self.fn) if self.paths else self.fn
        self.result = returned_list(self.loop_fn)
        if self.result is None:
            raise AnalysisError('{}: the list of items the pass returns is not a local name the analysis can follow'.format(fname))
        self.item = loop_item(self.loop)
        if self.item is None:
            raise AnalysisError('{}: the loop variable that holds the item ({}) is not understood'.format(fname, unparse(self.loop.target)))
        # the parameter through which this function receives assemble's label table (read from the evaluated pipeline)
        try:
            self.labels_name = table_param(facts, self.loop_fn.name, 'labels') or 'labels'
        except AnalysisError:
            self.labels_name = 'labels'
        self.pos_var = self.find_position_var()
        self.mn_classes = mnemonic_classes(facts)
        self.rows = [r for r in (self.row(p) for p in self.paths) if r is not None]
        # classes whose size() is a name-indexed table: one walk per table key (the name decides the size)
        if self.sizes.table_domains:
            keep = []
            redo = set()
            for r in self.rows:
                syms = [k for k in r['consumed'].terms if isinstance(k, tuple)]
                hit = [k for k in self._flatten(syms) if isinstance(k, tuple) and k and k[0] == 'tablesize']
                if hit:
                    redo.update(h[1] for h in hit)
                else:
                    keep.append(r)
            for cls in sorted(redo):
                for key in self.sizes.table_domains[cls]:
                    _, _, paths = loop_paths(facts, self.fn, seed={('attr', self.item, 'name'): C(key)})
                    for p in paths:
                        f = p.facts.get(self.item)
                        if f and cls in f['isa']:
                            row = self.row(p)
                            if row is None:
                                continue
                            row['seed'] = key
                            keep.append(row)
                            self.paths.append(p)
            self.rows = keep

    def lifted(self, key, preds):
        """[(formula, factory name, function node)] of the predicates of a criteria rule (cached per key)."""
        cache = self.__dict__.setdefault('_lifted', {})
        if key not in cache:
            from .predlift import lift_predicate
            cache[key] = [lift_predicate(self.walker, p, self.facts) for p in preds]
        return cache[key]

    def _flatten(self, syms):
        out = []
        todo = list(syms)
        while todo:
            x = todo.pop()
            out.append(x)
            if isinstance(x, tuple):
                todo.extend(y for y in x if isinstance(y, tuple))
        return out

    def find_position_var(self):
        """The running-offset variable: a local initialised to the constant 0 before the loop and advanced by += inside it."""
        zero = set()
        for st in self.loop_fn.body:
            if st is self.loop:
                break
            if isinstance(st, ast.Assign) and len(st.targets) == 1 and isinstance(st.targets[0], ast.Name) \
                    and isinstance(st.value, ast.Constant) and st.value.value == 0 and not isinstance(st.value.value, bool):
                zero.add(st.targets[0].id)
        adv = {}
        from .pathwalk import local_closures
        closures = local_closures(self.loop_fn)
        called = {n.func.id for n in ast.walk(self.loop) if isinstance(n, ast.Call) and isinstance(n.func, ast.Name) and n.func.id in closures}
        region = [self.loop] + [closures[c] for c in called]
        nodes = [x for r in region for x in ast.walk(r)]
        for n in nodes:
            if isinstance(n, ast.AugAssign) and isinstance(n.op, ast.Add) and isinstance(n.target, ast.Name) and n.target.id in zero:
                adv[n.target.id] = adv.get(n.target.id, 0) + (2 if 'size' in unparse(n.value) else 1)
        # an offset is *used* while the items are walked (compared with label values, recorded as a label, handed to an evaluation);
        # a counter that is only advanced there and read after the loop (statistics for a log line) is none
        read = {n.id for n in nodes if isinstance(n, ast.Name) and isinstance(n.ctx, ast.Load)}
        adv = {k: v for k, v in adv.items() if k in read}
        self.pos_candidates = sorted(adv)
        if not adv:
            return None
        return max(adv, key=lambda k: adv[k])

    def row(self, path):
        acc = account(path, self.result, self.labels_name)
        st = path
        # facts implied by a matched compression rule
        crit = criteria_of_path(path)
        unpinned = False
        if crit is not None:
            key, preds = crit
            names = [f[3][1] for f, _, _ in self.lifted(key, preds)
                     if f[0] == 'cmp' and f[1] == '==' and f[2] == ('NAME',) and f[3][0] == 'const']
            unpinned = len(names) != 1          # which instruction the matched rule applies to was not read off its predicates
            if len(names) == 1:
                nm = names[0]
                st.fact(('attr', self.item, 'name'))['eq'] = C(nm)
                classes = self.mn_classes.get(nm, set())
                if len(classes) == 1:
                    cls = next(iter(classes))
                    f_item = st.fact(self.item)
                    if any(self.facts.is_subclass(cls, k) for k in f_item['nota']):
                        # the path assumes the item is not of the class the matched rule's mnemonic has (a fork inside a helper
                        # that was walked for the construction): it cannot be taken
                        return None
                    f_item['isa'].add(cls)
            elif not names:
                # a rule that admits several mnemonics (`i.name in (..)`): the item is of the class they share, if they share one
                for f, _, _ in self.lifted(key, preds):
                    if f[0] == 'or' and f[1] and all(x[0] == 'cmp' and x[1] == '==' and x[2] == ('NAME',) and x[3][0] == 'const' for x in f[1]):
                        classes = set()
                        for x in f[1]:
                            classes |= self.mn_classes.get(x[3][1], set())
                        if len(classes) == 1:
                            st.fact(self.item)['isa'].add(next(iter(classes)))
                            unpinned = False
        try:
            consumed = self.sizes.size(self.item, st)
        except AnalysisError as e:
            # size() of the consumed item is not understood: the byte accounting of this path has no verdict (deferred by the
            # conservation rule); everything else that is read off the path (what is built, which rule matched) is unaffected
            consumed = LinS({('opaque', 'size(): ' + str(e)[:100]): 1})
        appended = LinS()
        app_values = []
        foreign = []
        for recv, val, node, meth in acc.appended:
            if recv in (('lv', self.result), ('name', self.result)):
                if meth == 'extend' and val is not None and val[0] in ('list', 'tuple') and not any(e[0] == 'star' for e in val[1]):
                    # extend([a, b]) / += [a, b]: the elements written out, appended in order
                    for e in val[1]:
                        try:
                            appended = appended + self.sizes.size(e, st)
                        except AnalysisError as e2:
                            appended = appended + LinS({('opaque', 'size(): ' + str(e2)[:100]): 1})
                        app_values.append((e, node))
                    continue
                if meth == 'extend':
                    appended = appended + LinS({('size-of-list', val): 1})
                else:
                    try:
                        appended = appended + self.sizes.size(val, st)
                    except AnalysisError as e:
                        appended = appended + LinS({('opaque', 'size(): ' + str(e)[:100]): 1})
                app_values.append((val, node))
            else:
                foreign.append((recv, val, node))
        advance = LinS()
        pos_var = None
        for (var, op, rhs, node, idx) in acc.advances:
            if var == self.pos_var:
                pos_var = var
                term = self.sizes.lin(rhs, st)
                advance = advance + (term if op == '+' else term.scale(-1))
        delta = LinS()
        upd = []
        for u in acc.label_updates:
            p = u['parsed']
            if p is None:
                upd.append((u, None))
                continue
            d = self.sizes.lin(p['delta'], st).scale(p['sign'])
            delta = delta + d
            upd.append((u, d))
        # writes to the label table that the accounting does not follow (the label delta of this path is then unknown)
        unknown = [u['node'] for u, d in upd if d is None] + list(acc.label_other)
        return dict(path=path, acc=acc, consumed=consumed, appended=appended, app_values=app_values, advance=advance,
                    delta=delta, updates=upd, crit=crit, foreign=foreign, unpinned=unpinned, label_unknown=unknown)


def describe_row(r):
    return {'path': r['path'].cond_text()[-160:], 'end': r['path'].end, 'consumed': repr(r['consumed']),
            'appended': repr(r['appended']), 'label_delta': repr(r['delta']), 'advance': repr(r['advance']),
            'rule': r['crit'][0] if r['crit'] else None}


PURE_BUILTINS = {'isinstance', 'issubclass', 'getattr', 'hasattr', 'type', 'callable', 'len', 'struct.calcsize', 'struct.pack', 'bytes', 'bytearray', 'int', 'str', 'min', 'max', 'abs', 'sum', 'list', 'tuple', 'ord', 'chr', 'bool'}
BUILTIN_METHODS = {'encode', 'decode', 'to_bytes', 'lower', 'upper', 'strip', 'lstrip', 'rstrip', 'join', 'split', 'hex', 'format', 'items', 'keys', 'values', 'ljust', 'rjust', 'zfill'}
STRUCTURAL = {'var', 'at', 'bin', 'un', 'cmp', 'bool', 'ifexp', 'mul', 'tablesize', 'accum', 'comp', 'list', 'tuple', 'star', 'size-of-list', 'item', 'lv', 'havoc', 'const',
              'slice', 'res', 'sym'}


def opaque_atoms(facts, lin):
    """Sub-terms of a linear form that the size algebra did not see through.  A difference is a disproof only when every term in
    it is understood: constants, fields of the item, pure builtins / builtin methods over those, constructed objects with such
    arguments.  Anything else (a call of a repository function or method that was not followed, an unresolved module-level name,
    a subscript of something that is not a constant table, the size of an object of unknown construction) is listed here."""
    methods = set()
    for ci in facts.classes.values():
        methods.update(ci.methods)
    out = []

    def walk(t):
        if not isinstance(t, tuple) or not t or not isinstance(t[0], str):
            for x in (t if isinstance(t, tuple) else ()):
                walk(x)
            return
        k = t[0]
        if k == 'const':
            return
        if k == 'attr' and len(t) == 3:
            if isinstance(t[1], tuple) and t[1] and t[1][0] == 'new':
                # a field of a freshly built helper object that is not one of its constructor arguments (computed in __init__):
                # what it holds is not followed
                out.append(t)
                return
            walk(t[1])
            return
        if k == 'call' and len(t) == 4 and t[1] == 'len' and len(t[2]) == 1:
            # a length is a canonical unknown only for a field of the item or its encoding; the length of something that was
            # built (joined, accumulated, comprehended) and that the algebra did not reduce is not comparable
            x = t[2][0]
            plain = lambda v: isinstance(v, tuple) and v and (v[0] in ('item', 'lv') or (v[0] == 'attr' and plain(v[1])))
            if not (plain(x) or (x[0] == 'mcall' and x[2] == 'encode' and plain(x[1]) and all(y[0] == 'const' for y in x[3]))):
                out.append(t)
            return
        if k == 'call' and len(t) == 4 and isinstance(t[1], str):
            if t[1] not in PURE_BUILTINS:
                out.append(t)
                return
        elif k == 'mcall' and len(t) >= 4:
            if t[2] in methods or t[2] not in BUILTIN_METHODS:
                out.append(t)
                return
        elif k == 'size-of-list':
            # the total size of a list of items that is not written out element by element: not comparable
            out.append(t)
            return
        elif k == 'size' and len(t) == 2:
            if not (isinstance(t[1], tuple) and t[1] and t[1][0] in ('item', 'attr', 'new', 'obj', 'lv')):
                out.append(t)
                return
        elif k == 'new':
            pass
        elif k == 'name':
            # a module-level name that was not resolved to a constant (comprehension variables are names too: those are fine)
            if len(t) == 2 and isinstance(t[1], str) and (t[1] in facts.assign_nodes or t[1] in facts.funcs):
                out.append(t)
            return
        elif k == 'sub':
            base = t[1]
            if not (base[0] in ('const', 'dict', 'list', 'tuple', 'attr', 'item', 'lv')):
                out.append(t)
                return
        elif k in ('dict',):
            pass
        elif k not in STRUCTURAL:
            out.append(t)
            return
        if k in ('call', 'new') and len(t) == 4:
            kids = list(t[2]) + [v for _, v in t[3]]
        elif k == 'mcall' and len(t) >= 4:
            kids = [t[1]] + list(t[3]) + [v for _, v in (t[4] if len(t) > 4 else ())]
        else:
            kids = [x for x in t[1:] if isinstance(x, tuple)]
        for x in kids:
            walk(x)
    for key in lin.terms:
        walk(key)
    return out


def zero_values(path):
    """Symbolic values the path found to be zero / falsy: `if not x`, `if x == 0`, the else arm of `if x` / `if x != 0`."""
    out = []
    for t, pol, _ in path.conds:
        if not isinstance(t, tuple) or not t:
            continue
        if t[0] == 'un' and t[1] == 'not':
            t, pol = t[2], not pol
        if t[0] == 'cmp' and t[1] in ('==', '!=') and (is_const(t[2]) or is_const(t[3])):
            c, x = (t[2], t[3]) if is_const(t[2]) else (t[3], t[2])
            if c[1] == 0 and not isinstance(c[1], bool) and pol == (t[1] == '=='):
                out.append(x)
        elif t[0] != 'cmp' and not pol:
            out.append(t)
    return out


def multiple_of(residue, z):
    """residue == k * z for some integer k (linear forms without constant part)."""
    if residue.const != 0 or z.const != 0 or not z.terms or set(residue.terms) != set(z.terms):
        return False
    ratios = {residue.terms[k] / z.terms[k] for k in z.terms}
    return len(ratios) == 1 and float(next(iter(ratios))).is_integer()


def known_zero(pa, path, residue):
    forms = []
    for z in zero_values(path):
        if z[0] != 'bin':
            continue
        try:
            forms.append(pa.sizes.lin(z, path))
        except AnalysisError:
            continue
    # a loop that ran zero times: its iterable is empty - with the helpers that produce the iterable followed
    # (`for v in parse_values(item):` over a list that has one element per element of item.values)
    for ev in path.events:
        if ev[0] == 'loop0' and isinstance(ev[1], tuple):
            try:
                it = pa.sizes.resolve(ev[1], path)
                if it != ev[1]:
                    forms.append(pa.sizes.lin(('call', 'len', (it,), ()), path))
            except AnalysisError:
                continue
    return any(not lz.is_zero() and multiple_of(residue, lz) for lz in forms)


def table_known_empty(pa, path):
    table = ('name', pa.labels_name)
    return any(z == table or z == ('call', 'len', (table,), ()) for z in zero_values(path))


def class_test(t):
    """An isinstance test (possibly negated / combined): what it teaches is already in the path's class facts."""
    if not isinstance(t, tuple) or not t:
        return False
    if t[0] == 'un' and t[1] == 'not':
        return class_test(t[2])
    if t[0] == 'bool':
        return all(class_test(x) for x in t[2])
    if t[0] == 'cmp' and t[1] in ('is', 'is not', '==', '!='):
        # type(x) is C / x.__class__ is C
        for a, b in ((t[2], t[3]), (t[3], t[2])):
            if b[0] == 'name' and ((a[0] == 'call' and a[1] == 'type' and len(a[2]) == 1) or (a[0] == 'attr' and a[2] == '__class__')):
                return True
    return t[0] == 'call' and t[1] == 'isinstance'


def contains_value(v, x):
    if v == x:
        return True
    return isinstance(v, tuple) and any(contains_value(y, x) for y in v if isinstance(y, tuple))


MUTABLE_MAKERS = ('bytearray', 'list', 'dict', 'set', 'collections.deque', 'deque', 'io.BytesIO', 'BytesIO')


def check_shared_buffers(report, facts, pa, rule):
    """An item that is emitted must own its payload: a mutable buffer created once, before the item loop, refilled in every
    iteration and handed *as is* to the item built in that iteration is shared by all of them - each earlier item ends up with the
    bytes (and the length) of the last one."""
    if isinstance(pa, ast.FunctionDef):
        # a bare function: every top-level loop of it (used where no pass analysis is needed or possible)
        class _P:
            pass
        for lp in [st for st in pa.body if isinstance(st, ast.For)]:
            q = _P()
            q.loop_fn, q.loop, q.result, q.fname = pa, lp, returned_list(pa), pa.name
            check_shared_buffers(report, facts, q, rule)
        return
    fn, loop = pa.loop_fn, pa.loop
    pre = {}
    for st in fn.body:
        if st is loop:
            break
        if isinstance(st, ast.Assign) and len(st.targets) == 1 and isinstance(st.targets[0], ast.Name):
            v = st.value
            fresh = isinstance(v, (ast.List, ast.Dict, ast.Set)) or (isinstance(v, ast.Call) and dotted(v.func) in MUTABLE_MAKERS)
            if fresh:
                pre[st.targets[0].id] = st
            else:
                pre.pop(st.targets[0].id, None)
    rebound = {n.id for n in ast.walk(loop) if isinstance(n, ast.Name) and isinstance(n.ctx, ast.Store)}
    result = pa.result
    n_checked = 0
    for name, st in sorted(pre.items()):
        if name in rebound or name == result:
            continue
        refilled = any(isinstance(n, ast.Call) and isinstance(n.func, ast.Attribute) and isinstance(n.func.value, ast.Name) and n.func.value.id == name
                       and n.func.attr in ('clear', 'extend', 'append', 'insert', 'pop', 'remove', 'update', 'add', 'write', 'truncate', 'seek')
                       for n in ast.walk(loop)) or any(isinstance(n, (ast.AugAssign,)) and isinstance(n.target, ast.Name) and n.target.id == name for n in ast.walk(loop))
        if not refilled:
            continue
        n_checked += 1
        for n in ast.walk(loop):
            if isinstance(n, ast.Call) and isinstance(n.func, ast.Name) and n.func.id in facts.classes and facts.is_subclass(n.func.id, 'Item'):
                args = list(n.args) + [k.value for k in n.keywords]
                if any(isinstance(a, ast.Name) and a.id == name for a in args):
                    report.fail(Finding(rule, pa.fname, n,
                                        'the {} built here is handed the buffer `{}` itself, which is created once before the loop (line {}) and refilled for every item: all '
                                        'items built from it share one object, so each earlier directive ends up with the bytes of the last one'.format(n.func.id, name, st.lineno),
                                        line=n.lineno), instance='{}: emitted items own their payload'.format(pa.fname))
    report.ok(rule, '{}: emitted items own their payload'.format(pa.fname), nontrivial=False)


def IS_havoc(t):
    return isinstance(t, tuple) and bool(t) and (t[0] == 'havoc' or any(IS_havoc(x) for x in t if isinstance(x, tuple)))


def check_conservation(report, pa, rule, expect_label_writes):
    """L2 / L3 for one pass: bytes in == bytes out + label delta; position advances by bytes out; label shifts are applied to
    all labels strictly after the item start."""
    fname = pa.fname
    for r in pa.rows:
        path = r['path']
        if path.end == 'raise':
            continue
        inst = '{} [{}]'.format(fname, (r['crit'][0] if r['crit'] else path.cond_text()[-70:]))
        report.count('pass paths accounted')
        node = (r['app_values'][0][1] if r['app_values'] else (path.end_node or pa.loop))
        if r['label_unknown']:
            n = r['label_unknown'][0]
            report.undecided('{}: the label table is written at line {} in a form the layout rules do not follow ({{k: v - d for k, v in labels.items() '
                             'if v > position}} and its equivalents): how far labels move on the path [{}] is not known'.format(
                                 fname, getattr(n, 'lineno', '?'), path.cond_text()[-80:]))
            continue
        if pa.pos_var is None and r['updates']:
            report.undecided('{}: labels are shifted but no local running offset (a counter set to 0 before the item loop and advanced inside it) is recognised'.format(fname))
            continue
        total = r['appended'] + r['delta']
        if not (total - r['consumed']).is_zero() and (known_zero(pa, path, total - r['consumed']) or (table_known_empty(pa, path) and r['app_values'])):
            # the difference is an expression the path found to be zero (`if shrink:` ... else nothing to move), or the path knows
            # that there is no label at all (`if labels:` around the shift): nothing can be off
            report.ok(rule + '.conserve', inst + ': {} = {} + {} (difference known to be zero on this path)'.format(r['consumed'], r['appended'], r['delta']))
        elif not (total - r['consumed']).is_zero():
            where = r['updates'][0][0]['node'] if r['updates'] else node
            hidden = opaque_atoms(pa.facts, total - r['consumed'])
            residue = total - r['consumed']
            if not hidden and any(isinstance(k, tuple) and k and k[0] == 'size' for k in residue.terms):
                # the size of an item whose class the path does not pin: a disproof only if nothing on the path could have pinned
                # it - a condition the walker did not see through (a helper object deciding the match, a test on the object that
                # is not an isinstance / type test) may well do so
                class L:
                    terms = {t: 1 for t, pol, _ in path.conds if isinstance(t, tuple)}
                hidden = opaque_atoms(pa.facts, L) or [t for t, pol, _ in path.conds if IS_havoc(t)]
                if not hidden and r.get('unpinned'):
                    hidden = [('opaque', 'the mnemonic test of rule {!r}'.format(r['crit'][0]))]
            if not hidden and r['acc'].label_writes:
                # the path writes into the label table in a way that is not read as a shift (labels[k] -= d in a loop, ...)
                hidden = [('opaque', 'the write into the label table at line {}'.format(getattr(r['acc'].label_writes[0], 'lineno', '?')))]
                if not hidden:
                    objs = [k[1] for k in residue.terms if isinstance(k, tuple) and k and k[0] == 'size']
                    hidden = [t for t, pol, _ in path.conds if not class_test(t) and any(contains_value(t, o) for o in objs)]
            if not hidden:
                # the path assumes that a loop over something that is not followed ran zero times (`for x in helper(item):` with the
                # emitted bytes accumulated inside): what that says about the item is not known, so the difference is no disproof
                class Z:
                    terms = {ev[1]: 1 for ev in path.events if ev[0] == 'loop0' and isinstance(ev[1], tuple)}
                hidden = opaque_atoms(pa.facts, Z)
            if hidden:
                # a difference made of terms the size algebra does not see through is no disproof
                report.undecided('{}: on the path [{}] the bytes an item contributes ({}) and the bytes emitted ({}) are not comparable: {} is not followed'.format(
                    fname, path.cond_text()[-100:], r['consumed'], r['appended'], show(hidden[0])[:100]))
                continue
            report.fail(Finding(rule + '.conserve', fname, where,
                                'on the path [{}] the item contributes {} bytes to the label table but {} bytes are emitted and later '
                                'labels move by {}: labels after it no longer equal the byte offset'.format(
                                    path.cond_text()[-120:], r['consumed'], r['appended'], r['delta']),
                                line=getattr(where, 'lineno', None)), instance=inst)
        else:
            report.ok(rule + '.conserve', inst + ': {} = {} + {}'.format(r['consumed'], r['appended'], r['delta']))
        # position tracking
        has_pos = pa.pos_var is not None
        if has_pos:
            if not (r['advance'] - r['appended']).is_zero() and len(getattr(pa, 'pos_candidates', ())) > 1:
                report.undecided('{}: several counters ({}) are advanced and read in the item loop; which one is the running offset is not established'.format(
                    fname, ', '.join(pa.pos_candidates)))
            elif not (r['advance'] - r['appended']).is_zero():
                report.fail(Finding(rule + '.position', fname, node,
                                    'on the path [{}] position advances by {} while {} bytes are emitted'.format(
                                        path.cond_text()[-120:], r['advance'], r['appended']), line=getattr(node, 'lineno', None)), instance=inst)
            else:
                report.ok(rule + '.position', inst + ': position += {}'.format(r['advance']), nontrivial=False)
        # shape of label shifts
        for u, d in r['updates']:
            p = u['parsed']
            n = u['node']
            if p is None:
                raise AnalysisError('{}: label update at line {} is not of a form the layout rules can follow '
                                    '({{k: v - d for k, v in labels.items() if v > position}}): no verdict'.format(fname, n.lineno))
            problems = []
            if not p['key_ok']:
                problems.append('keys are rewritten')
            if not (p['iter'][0] == 'mcall' and p['iter'][1] == ('name', pa.labels_name) and p['iter'][2] == 'items' and not p['iter'][3]):
                problems.append('the shift does not range over all labels ({})'.format(show(p['iter'])))
            if d is not None and not d.is_zero():
                if p['op'] != '>':
                    problems.append('labels are selected with `{}` instead of `>` the item start (a label *at* the item start must not move, every later one must)'.format(p['op']))
                if p['rhs'] != ('lv', pa.pos_var):
                    problems.append('the shift is taken relative to {} instead of the offset at which the item starts'.format(show(p['rhs'])))
            if d is not None and d.is_const() and d.const < 0:
                problems.append('labels are moved up by {}'.format(-d.const))
            for pr in problems:
                report.fail(Finding(rule + '.shift-shape', fname, n, pr, line=n.lineno), instance=inst + ' ' + pr[:30])
            if not problems:
                report.ok(rule + '.shift-shape', inst + ': shift by {} of labels > item start'.format(d))
        if not expect_label_writes and (r['updates'] or r['acc'].label_sets):
            n = (r['updates'][0][0]['node'] if r['updates'] else r['acc'].label_sets[0][2])
            report.fail(Finding(rule + '.freeze', fname, n, 'labels are modified in a pass ordered after the last size change', line=n.lineno), instance=inst)


def check_order_only(report, pa, rule):
    """R9.1: result built by append/extend in iteration order only."""
    bad = []
    for n in ast.walk(pa.loop_fn):
        if isinstance(n, ast.Call) and isinstance(n.func, ast.Attribute) and isinstance(n.func.value, ast.Name) \
                and n.func.value.id == pa.result and n.func.attr in ('insert', 'sort', 'reverse', 'pop', 'remove', 'clear', '__setitem__'):
            bad.append(n)
        if isinstance(n, (ast.Assign, ast.AugAssign)):
            tgts = n.targets if isinstance(n, ast.Assign) else [n.target]
            for t in tgts:
                if isinstance(t, ast.Subscript) and isinstance(t.value, ast.Name) and t.value.id == pa.result:
                    bad.append(n)
    # the returned value is the list itself, not a reordering of it
    for n in ast.walk(pa.loop_fn):
        if isinstance(n, ast.Return) and n.value is not None and not (isinstance(n.value, ast.Name) and n.value.id == pa.result) \
                and pa.result is not None and n in pa.loop_fn.body:
            bad.append(n)
    for b in bad:
        report.fail(Finding(rule, pa.fname, b, 'the item list is reordered / edited in place instead of being built by append in source order', line=b.lineno))
    if not bad:
        report.ok(rule, '{}: result list built by append/extend only'.format(pa.fname))
    # iteration is over the input list itself
    it = pa.loop.iter
    src = in_order_source(it)
    ok = isinstance(src, ast.Name) and src.id in [a.arg for a in pa.loop_fn.args.args]
    if not ok:
        reorders = [n for n in ast.walk(it) if isinstance(n, ast.Call) and dotted(n.func) in ('reversed', 'sorted', 'set', 'frozenset', 'random.sample', 'random.shuffle')] or \
            [n for n in ast.walk(it) if isinstance(n, ast.Slice)]
        if not reorders:
            # neither the input list (possibly under list / iter / enumerate) nor a visible reordering of it: not understood
            raise AnalysisError('{}: the item loop runs over `{}`, which is not followed back to the input list'.format(pa.fname, unparse(it)[:60]))
    report.check(ok, rule, '{}: iterates the input item list in order'.format(pa.fname),
                 lambda: Finding(rule, pa.fname, pa.loop.iter, 'the pass does not iterate its input list in order: for ... in {}'.format(unparse(it)),
                                 line=pa.loop.lineno))


_pa_cache = {}


def pass_analysis(facts, fname, incoming=None):
    key = (id(facts), fname, tuple(sorted(incoming)) if incoming is not None else None)
    if key not in _pa_cache:
        _pa_cache[key] = PassAnalysis(facts, fname, incoming)
    return _pa_cache[key]


def parse_classes(facts):
    """Concrete item classes parse_item can build."""
    from .wiring import parse_item_outcomes
    arms, els = parse_item_outcomes(facts)
    out = set()
    for key, test, outcomes in arms:
        for o in outcomes:
            if o.kind == 'return' and o.cls:
                if o.cls not in facts.classes:
                    raise AnalysisError('parse_item: an item is built through {}, which is not a class: which items enter the pipeline is not understood'.format(o.cls))
                out.add(o.cls)
    return out


def class_flow(facts, compress):
    """R9.5: item classes present after each pass of the pipeline.  Returns [(pass name, call node, incoming set, outgoing set,
    {class: handler description})] for the chosen value of `compress`."""
    classes = parse_classes(facts)
    steps = []
    for name, guard, node, args, tgt in pipeline(facts):
        if name in ('read_lines', 'lex_tokens', 'parse_item', 'resolve_blobs'):
            continue
        if guard != 'always':
            if guard == 'compress' and not compress:
                continue
            if guard not in ('compress',):
                raise AnalysisError('pipeline guard {!r} not understood'.format(guard))
        pa = pass_analysis(facts, name, frozenset(classes))
        out = set()
        sz = pa.sizes
        for r in pa.rows:
            path = r['path']
            if path.end == 'raise':
                continue
            f = path.facts.get(pa.item)
            if f and (f['isa'] or f['nota']):
                cands = set(sz.candidate_classes(pa.item, path) or []) if f['isa'] else \
                    {c for c in classes if not any(facts.is_subclass(c, k) for k in f['nota'])}
            else:
                cands = set(classes)
            if not cands:
                continue
            for val, n in r['app_values']:
                if val != pa.item and val[0] != 'new':
                    val = sz.resolve(val, path)
                todo = [val]
                while todo:
                    val = todo.pop()
                    if val == pa.item:
                        out |= cands
                    elif val[0] == 'new':
                        out.add(val[1])
                    elif val[0] == 'mcall' and val[2] == '__class__':
                        out |= cands
                    elif val[0] == 'ifexp':
                        todo.extend([val[2], val[3]])
                    else:
                        raise AnalysisError('{}: the class of the item appended at line {} ({}) is not established'.format(
                            name, getattr(n, 'lineno', '?'), show(val)[:80]))
        steps.append((name, node, set(classes), set(out)))
        classes = out
    return steps
