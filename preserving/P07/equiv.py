#!/usr/bin/env python
"""
Differential check: the refactored bronzebeard/asm.py against the version at git HEAD.

Loads the ORIGINAL module (git show HEAD:bronzebeard/asm.py, written into a temp copy
of the package so that --include-definitions keeps working) and the working-tree module
under two different names, then compares:

  1. sign_extend / relocate_hi / relocate_lo over a dense set of values
  2. expression objects (repr / str / eval) over many expression strings and trees
  3. assemble() over random programs (fixed seed, compress on / off), including the
     constants / labels dicts left behind, the type of the result and the log messages
  4. the command line: in-process (patched sys.argv) over many random option
     combinations, and via subprocess over a structured matrix, comparing exit status,
     stdout / stderr text and the resulting files

Exits 0 when everything matches, 1 otherwise.

Environment knobs: EQUIV_PROGRAMS (default 3000), EQUIV_CLI_RANDOM (default 1500),
EQUIV_JOBS (default 8), EQUIV_SEED (default 20260927).
"""

import contextlib
import importlib.util
import io
import itertools
import logging
import os
import random
import re
import shutil
import subprocess
import sys
import tempfile
import time
import warnings
from collections import ChainMap
from concurrent.futures import ThreadPoolExecutor

ROOT = os.path.dirname(os.path.abspath(__file__))
# root of the tree holding the refactored bronzebeard package (overridable, used to check that this
# script notices deliberately broken variants)
NEW_ROOT = os.path.realpath(os.environ.get('EQUIV_NEW_ROOT', ROOT))
N_PROGRAMS = int(os.environ.get('EQUIV_PROGRAMS', '3000'))
N_CLI_RANDOM = int(os.environ.get('EQUIV_CLI_RANDOM', '1500'))
JOBS = int(os.environ.get('EQUIV_JOBS', '8'))
SEED = int(os.environ.get('EQUIV_SEED', '20260927'))

FAILURES = []
COUNTS = {}


ADDRESS = re.compile(r' at 0x[0-9a-f]+>')


def scrub_addresses(value):
    # reprs such as "<function <lambda> at 0x7f...>" can end up inside error messages
    if isinstance(value, str):
        return ADDRESS.sub(' at 0x?>', value)
    if isinstance(value, (list, tuple)):
        return type(value)(scrub_addresses(v) for v in value)
    return value


def check(section, what, a, b):
    COUNTS[section] = COUNTS.get(section, 0) + 1
    a, b = scrub_addresses(a), scrub_addresses(b)
    if a != b:
        FAILURES.append((section, what, a, b))
        if len(FAILURES) <= 25:
            print('MISMATCH [{}] {}\n   orig: {!r}\n   new:  {!r}'.format(section, what, a, b))
        return False
    return True


# ---------------------------------------------------------------------------
# loading both versions
# ---------------------------------------------------------------------------

def git(*args):
    return subprocess.run(['git', '-C', ROOT] + list(args), check=True, stdout=subprocess.PIPE).stdout


def setup_original(workdir):
    """Create <workdir>/orig/bronzebeard as it is at HEAD and return the path of its root."""
    orig_root = os.path.join(workdir, 'orig')
    os.makedirs(orig_root)
    archive = git('archive', '--format=tar', 'HEAD', 'bronzebeard')
    subprocess.run(['tar', '-x', '-C', orig_root], input=archive, check=True)
    # be explicit about where the original module comes from
    source = git('show', 'HEAD:bronzebeard/asm.py')
    with open(os.path.join(orig_root, 'bronzebeard', 'asm.py'), 'wb') as f:
        f.write(source)
    return orig_root


def load_module(name, path):
    spec = importlib.util.spec_from_file_location(name, path)
    module = importlib.util.module_from_spec(spec)
    sys.modules[name] = module
    spec.loader.exec_module(module)
    return module


class ListHandler(logging.Handler):
    def __init__(self):
        super().__init__()
        self.messages = []

    def emit(self, record):
        self.messages.append(record.getMessage())


def outcome(func, *args, **kwargs):
    """Run func and describe what happened in a comparable way."""
    try:
        value = func(*args, **kwargs)
    except SystemExit as e:
        code = e.code
        if isinstance(code, BaseException):
            code = ('exc', type(code).__name__, str(code))
        return ('exit', code)
    except TypeError as e:
        # a float reaching relocate_hi (only possible through caller-supplied non-integer constants) is
        # rejected with a TypeError by both versions; the message names the first operator applied to it
        # ("&" before, ">>" after the rewrite), so only the exception type is compared in that one case
        message = str(e)
        if message in ("unsupported operand type(s) for &: 'float' and 'int'", "unsupported operand type(s) for >>: 'float' and 'int'"):
            message = "unsupported operand type(s) for <bit operator>: 'float' and 'int'"
        return ('raise', type(e).__name__, message)
    except BaseException as e:
        return ('raise', type(e).__name__, str(e))
    if isinstance(value, (bytes, bytearray)):
        return ('value', type(value).__name__, bytes(value))
    return ('value', type(value).__name__, value)


# ---------------------------------------------------------------------------
# 1. numeric helpers
# ---------------------------------------------------------------------------

def interesting_values():
    values = set(range(-70000, 70001))
    for k in range(0, 41):
        for d in range(-17, 18):
            values.add(2**k + d)
            values.add(-(2**k) + d)
            values.add(2**k - 2**11 + d)
            values.add(2**k + 2**11 + d)
    for k in (48, 63, 64, 65, 100):
        for d in (-1, 0, 1, 0x7ff, 0x800, 0x801):
            values.add(2**k + d)
            values.add(-(2**k) + d)
    return sorted(values)


def check_helpers(orig, new):
    values = interesting_values()
    for v in values:
        check('helpers', 'relocate_hi({})'.format(v), orig.relocate_hi(v), new.relocate_hi(v))
        check('helpers', 'relocate_lo({})'.format(v), orig.relocate_lo(v), new.relocate_lo(v))

    dense_bits = (1, 2, 3, 4, 5, 6, 7, 8, 9, 10, 11, 12, 13, 16, 17, 20, 21, 24, 31, 32, 33, 40, 64)
    for bits in dense_bits:
        mismatch = [v for v in values if orig.sign_extend(v, bits) != new.sign_extend(v, bits)]
        check('helpers', 'sign_extend(*, {}) mismatching values'.format(bits), [], mismatch[:10])
    COUNTS['helpers'] += len(values) * len(dense_bits)

    special = [v for v in values if abs(v) > 70000 or abs(v) < 40]
    for bits in range(1, 70):
        for v in special:
            check('helpers', 'sign_extend({}, {})'.format(v, bits), orig.sign_extend(v, bits), new.sign_extend(v, bits))

    # the hi / lo pair must still add up (sanity check of the new code on its own)
    for v in values:
        hi, lo = new.relocate_hi(v), new.relocate_lo(v)
        check('helpers', 'hi/lo sum {}'.format(v), new.sign_extend(v, 32), new.sign_extend((hi << 12) + lo, 32))

    # failure behaviour: same exception type and message
    for bits in (0, -1, -5):
        for v in (0, 1, -1, 12345):
            check('helpers', 'sign_extend({}, {}) failure'.format(v, bits),
                  outcome(orig.sign_extend, v, bits), outcome(new.sign_extend, v, bits))
    # booleans behave like ints
    for v in (True, False):
        for f in ('relocate_hi', 'relocate_lo'):
            check('helpers', '{}({})'.format(f, v), outcome(getattr(orig, f), v), outcome(getattr(new, f), v))
    # non-integers are rejected with a TypeError by both (only the type is compared: the operator
    # named in the message of relocate_hi is "&" before and ">>" after the rewrite)
    for v in (1.5, 'x', None, [1]):
        for f in ('relocate_hi', 'relocate_lo'):
            check('helpers', '{}({!r}) failure type'.format(f, v),
                  outcome(getattr(orig, f), v)[:2], outcome(getattr(new, f), v)[:2])
        check('helpers', 'sign_extend({!r}, 12) failure'.format(v),
              outcome(orig.sign_extend, v, 12), outcome(new.sign_extend, v, 12))


# ---------------------------------------------------------------------------
# 2. expressions
# ---------------------------------------------------------------------------

CONSTANTS = {'FOO': 42, 'BAR': 84, 'ADDR': 0x20000000, 'NEG': -5, 'BIG': 0xfffff800, 'HALF': 0x800,
             'ZERO': 0, 'RAM': 0x80000000, 'K7FF': 0x7ff, 'M1': -1}
LABELS = {'start': 0, 'main': 0x40, 'loop': 0x44, 'end': 0x1000, 'far': 0x123456, 'odd': 0x7fe}

CHAR_LITERALS = [
    "'a'", "'Z'", "'0'", "' '", "'\\n'", "'\\t'", "'\\0'", "'\\\\'", "'\\x41'", "'\\x7f'", "'\\xff'",
    "'\\u00e9'", "'\\101'", "'#'", "'''", "''", "'", "'ab'", "'\\'", "'\\x4'", "'\\u12'", "'\\N{DASH}'",
    "'\u00e9'", "'\u4e16'", "'a'b'", "'\\q'", "'\"'", "'\\''",
]

FIXED_EXPRESSIONS = [
    '0', '1', '-1', '42', '0x10', '0b101', '0o17', '017', '1_000', '0x', '1 +', '+ 1', '- - 1', '~0', '~ FOO',
    'FOO', 'BAR', 'FOO + BAR', 'FOO * 2', 'ADDR + 12', 'ADDR >> 12', 'ADDR & 0xfff', 'NEG', 'NEG * NEG',
    'UNKNOWN', 'UNKNOWN + 1', 'FOO + UNKNOWN', 'start', 'main', 'end - start', 'main + FOO', 'far',
    '1 / 2', '4 / 2', '4 // 2', '7 % 3', '1 // 0', '1 % 0', '1 << 4', '1 << -1', '1 >> 1', '2 ** 10', '2 ** -1',
    '1.5', '1e3', '"str"', '"a" + "b"', '"a" * 3', 'None', 'True', 'False', '1 == 1', '1 < 2', 'not 1', '1 and 2',
    '1 if FOO else 2', '( 1 + 2 ) * 3', '( 1 + 2', '1 + 2 )', '( )', '[ 1 ]', '[ 1 ] [ 0 ]', '{ }', 'lambda : 1',
    'int ( 1 )', 'len ( "a" )', 'abs ( NEG )', 'ord ( "a" )', '__import__ ( "os" )', 'FOO . real', 'FOO . bit_length ( )',
    '( 1 ) . __class__', '1 , 2', 'x0', 'zero', 't0 + 1', 'sp', 'FOO FOO', 'FOO = 1', 'FOO := 1', '( BAZ := 1 )',
    '1 ; 2', 'import os', 'pass', '# nothing', '\\', '$', '@', '0x800', '0x7ff', '0xfffff800', '-2048', '2047', '2048',
    '%hi', '%lo', '%position', '%offset', 'a b c',
    "'a' + 1", "1 + 'a'", "'a' + 'b'", "'a' * 2", "'a' 'b'",
] + CHAR_LITERALS

MODIFIER_FORMS = [
    '%hi ( {} )', '%lo ( {} )', '%hi {}', '%lo {}', '%HI ( {} )', '%Lo ( {} )',
    '%hi ( %lo ( {} ) )', '%lo ( %hi ( {} ) )', '%hi %hi {}', '%lo %lo ( {} )',
]

REFERENCE_FORMS = [
    '%position ( {ref} , {e} )', '%position {ref} {e}', '%POSITION ( {ref} {e} )', '%offset ( {ref} )', '%offset {ref}',
    '%hi ( %position ( {ref} , {e} ) )', '%lo ( %position ( {ref} , {e} ) )', '%hi ( %offset ( {ref} ) )',
    '%lo ( %offset {ref} )', '%hi %offset {ref}', '%lo %position {ref} {e}', '%hi ( %lo ( %offset ( {ref} ) ) )',
    '%offset ( {ref} {e} )', '%offset', '%position ( {ref} )', '%position {ref}', '%position', '%hi', '%hi ( )', '%lo ( ) )',
]

REFERENCES = ['start', 'main', 'end', 'far', 'odd', 'FOO', 'ADDR', 'BIG', 'RAM', 'nowhere', '0', '4', "'a'", 'x0']


def random_arith(rng, depth=0):
    roll = rng.random()
    if depth >= 3 or roll < 0.35:
        kind = rng.random()
        if kind < 0.45:
            n = rng.choice([0, 1, 2, 3, 4, 7, 8, 12, 0x7ff, 0x800, 0x801, 0xfff, 0x1000, 0x12345, 0x7fffffff,
                            0x80000000, 0xffffffff, rng.randrange(0, 2**32), rng.randrange(0, 5000)])
            return rng.choice(['{}', '0x{:x}', '0b{:b}', '0o{:o}']).format(n)
        if kind < 0.85:
            return rng.choice(list(CONSTANTS) + list(LABELS) + ['UNDEFINED', 'x1', 'sp'])
        if kind < 0.95:
            return rng.choice(CHAR_LITERALS)
        # (no string atoms here: "s" * <huge int> would try to allocate gigabytes)
        return rng.choice(['1.5', 'None', 'True', '2.0'])
    if roll < 0.45:
        return rng.choice(['-', '~', '+', 'not ']) + ' ' + random_arith(rng, depth + 1)
    if roll < 0.55:
        return '( ' + random_arith(rng, depth + 1) + ' )'
    op = rng.choice(['+', '-', '*', '//', '%', '<<', '>>', '&', '|', '^', '/', '==', '<', 'and', 'or'])
    left = random_arith(rng, depth + 1)
    right = random_arith(rng, depth + 1)
    if op == '*' and ("'" in left or "'" in right):
        # 'a' * <huge int> would try to allocate gigabytes
        op = '+'
    if op in ('<<',):
        # keep shifts small enough to stay fast
        right = rng.choice(['0', '1', '4', '11', '12', '20', '31', '32', '-1', 'ZERO', 'FOO'])
    return '{} {} {}'.format(left, op, right)


def expression_strings(rng):
    exprs = list(FIXED_EXPRESSIONS)
    for _ in range(1500):
        exprs.append(random_arith(rng))
    inner = list(exprs)
    for e in rng.sample(inner, 400) + FIXED_EXPRESSIONS[:40]:
        for form in MODIFIER_FORMS:
            exprs.append(form.format(e))
    for ref in REFERENCES:
        for form in REFERENCE_FORMS:
            for e in ['0', '4', 'FOO', 'ADDR', 'NEG * 4', 'UNKNOWN', '1 +', "'a'", '', '1.5', rng.choice(inner)]:
                exprs.append(form.format(ref=ref, e=e))
    # a few without the padding the lexer would add
    exprs += ['%hi(ADDR)', '%lo(ADDR)', '%position(main, ADDR)', '%offset(main)', '(1+2)*3', "'a'+1", '1+1', 'FOO+BAR']
    seen = set()
    unique = []
    for e in exprs:
        if e not in seen:
            seen.add(e)
            unique.append(e)
    return unique


def build_expression(mod, text):
    line = mod.Line('<expr>', 7, 'addi t0, t0, ' + text)
    tokens = text.split()
    return mod.parse_immediate(tokens, line), line


def describe_expression(mod, text, contexts):
    try:
        expr, line = build_expression(mod, text)
    except BaseException as e:
        return ('parse-raise', type(e).__name__, str(e))
    result = [('repr', repr(expr)), ('str', str(expr)), ('type', type(expr).__name__)]
    for position, env in contexts:
        result.append(outcome(expr.eval, position, env(mod), line))
    return result


def expression_contexts():
    def chain(mod):
        return ChainMap(dict(CONSTANTS), dict(LABELS))

    def constants_only(mod):
        return ChainMap(dict(CONSTANTS), mod.REGISTERS)

    def plain(mod):
        d = dict(LABELS)
        d.update(CONSTANTS)
        return d

    def empty(mod):
        return {}

    def exotic(mod):
        return ChainMap({'FOO': 1.5, 'BAR': 'text', 'ADDR': True, 'NEG': None}, {'start': 2**40, 'main': -4, 'far': 0x800})

    return [(0, chain), (4, chain), (0x44, chain), (0x1002, chain), (0x7ffffffc, chain), (-8, chain),
            (None, constants_only), (0, plain), (12, empty), (8, exotic), (None, chain)]


def random_tree(mod, rng, depth=0):
    roll = rng.random()
    if depth >= 4 or roll < 0.3:
        return mod.Arithmetic(rng.choice(FIXED_EXPRESSIONS))
    if roll < 0.45:
        return mod.Position(rng.choice(REFERENCES), random_tree(mod, rng, depth + 1))
    if roll < 0.6:
        return mod.Offset(rng.choice(REFERENCES))
    if roll < 0.8:
        return mod.Hi(random_tree(mod, rng, depth + 1))
    return mod.Lo(random_tree(mod, rng, depth + 1))


class FakeItem:
    def __init__(self, imm, line, **extra):
        self.imm = imm
        self.line = line
        for k, v in extra.items():
            setattr(self, k, v)


def check_expressions(orig, new):
    rng = random.Random(SEED + 1)
    contexts = expression_contexts()
    for text in expression_strings(rng):
        check('expressions', 'expr {!r}'.format(text),
              describe_expression(orig, text, contexts), describe_expression(new, text, contexts))

    # trees built directly from the classes (shapes the parser would not produce)
    for n in range(3000):
        seed = rng.randrange(2**32)
        results = []
        for mod in (orig, new):
            tree = random_tree(mod, random.Random(seed))
            line = mod.Line('tree.asm', n, '  tree {}'.format(n))
            desc = [repr(tree), str(tree)]
            for position, env in contexts:
                desc.append(outcome(tree.eval, position, env(mod), line))
            # the same through eval_immediate, with and without the AUIPC adjustment
            env = ChainMap(dict(CONSTANTS), dict(LABELS))
            for extra in ({}, {'is_auipc_jump': False}, {'is_auipc_jump': True}, {'is_auipc_jump': 1}):
                for position in (0, 4, 0x1000):
                    desc.append(outcome(mod.eval_immediate, FakeItem(tree, line, **extra), position, env))
            results.append(desc)
        check('expressions', 'tree seed {}'.format(seed), results[0], results[1])

    # class-level surface used by other code: attributes, abstractness, subclass repr
    surface = []
    for mod in (orig, new):
        s = []
        a = mod.Arithmetic('1 + 1')
        p = mod.Position('main', a)
        o = mod.Offset('main')
        h = mod.Hi(p)
        l = mod.Lo(o)
        s.append([sorted(vars(x)) for x in (a, p, o, h, l)])
        s.append([isinstance(x, mod.Expr) for x in (a, p, o, h, l)])
        s.append(outcome(mod.Expr))

        class Sub(mod.Hi):
            pass

        class Sub2(mod.Position):
            pass

        s.append(repr(Sub(a)))
        s.append(str(Sub(a)))
        s.append(repr(Sub2('x', Sub(a))))
        s.append(outcome(mod.Arithmetic(5).eval, 0, {}, None))
        surface.append(s)
    check('expressions', 'class surface', surface[0], surface[1])


# ---------------------------------------------------------------------------
# 3. assemble() over random programs
# ---------------------------------------------------------------------------

REG_NAMES = ['x0', 'zero', 'ra', 'sp', 'gp', 't0', 't1', 't2', 's0', 'fp', 's1', 'a0', 'a1', 'a2', 'a3', 'a4', 'a5',
             'a6', 's2', 't6', 'x8', 'x9', 'x15', 'x16', 'x31', '8', '10', '0xa', 'X5', 'x32', 'bogus']
COMMON_REGS = ['s0', 's1', 'a0', 'a1', 'a2', 'a3', 'a4', 'a5', 'x8', 'x12', 'sp', 'zero', 't0', 'ra']


class ProgramGenerator:
    """
    Random programs. "Tame" programs stick to well-formed lines (they mostly assemble and so reach
    every pass), "wild" ones mix in malformed and out-of-range input (they mostly fail, which
    compares the failure behaviour, including the partially filled constants / labels).
    """

    VALID_REGS = REG_NAMES[:-3]
    TAME_COMPRESSED = [
        'c.addi {c}, 4', 'c.addi {r}, -3', 'c.li {r}, -7', 'c.li {c}, 31', 'c.lui {c}, 5', 'c.lui a1, %hi(0x1f000)', 'c.slli {c}, 3',
        'c.lwsp {r}, 8', 'c.swsp {r}, 12', 'c.addi16sp 32', 'c.addi16sp -64', 'c.addi4spn {c}, 16', 'c.lw {c}, 4({c2})',
        'c.lw {c}, {c2}, 64', 'c.sw {c}, 8({c2})', 'c.sub {c}, {c2}', 'c.xor {c}, {c2}', 'c.or {c}, {c2}', 'c.and {c}, {c2}',
        'c.srli {c}, 2', 'c.srai {c}, 31', 'c.andi {c}, -7', 'c.mv {r}, {r2}', 'c.add {r}, {r2}', 'c.jr {r}', 'c.jalr {r}',
        'c.nop', 'c.ebreak', 'c.j %offset({l})', 'c.jal %offset({l})', 'c.beqz {c}, %offset({l})', 'c.bnez {c}, %offset {l}',
        'c.addi {c}, %lo({k})', 'c.li {c}, %lo(%hi({k}))',
    ]

    def __init__(self, mod, rng):
        self.mod = mod
        self.rng = rng
        self.tame = rng.random() < 0.7
        self.constants = []
        self.aliases = []
        self.labels = ['l{}'.format(i) for i in range(rng.randrange(1, 7))]
        self.pending_labels = list(self.labels)
        self.in_constant = False

    def wild(self, probability):
        return (not self.tame) and self.rng.random() < probability

    def reg(self):
        rng = self.rng
        if self.aliases and rng.random() < 0.12:
            return rng.choice(self.aliases)
        if rng.random() < 0.6:
            return rng.choice(COMMON_REGS)
        if self.wild(0.04):
            return rng.choice(REG_NAMES)
        return rng.choice(self.VALID_REGS)

    def small(self):
        rng = self.rng
        if self.wild(0.1):
            return rng.choice([2048, -2049, 0xfff, 5000, -5000, 4096, 0x800])
        return rng.choice([0, 1, -1, 2, 4, 8, 12, 16, 31, 32, 60, 64, 124, 128, 252, 256, 496, 508, 512, -16, -32, -512,
                           2047, -2048, 0x7ff, -0x800, rng.randrange(-64, 64), rng.randrange(-2048, 2048)])

    def large(self):
        rng = self.rng
        return rng.choice([0x20000000, 0x20000800, 0x200007ff, 0x80000000, 0x7fffffff, 0xffffffff, 0xfffff800, 0x12345678,
                           0x1000, 0xfffff, 0x100000, 0x7ffff000, 0x7ffff800, 0x7ffff7ff, 0x800, 0x7ff, 0xfff,
                           rng.randrange(0, 2**32), rng.randrange(0, 2**32), rng.randrange(0, 2**20)] +
                          ([-0x80000000, 2**32, 2**33 + 5, -2**31 - 1] if not self.tame else []))

    def name(self):
        rng = self.rng
        pool = list(self.constants)
        if not self.in_constant or self.wild(0.2):
            # labels are not visible to constant definitions
            pool += self.labels
        if self.wild(0.07) or not pool:
            return rng.choice(['UNDEFINED', 'l99', 'x0', 'sp']) if not self.tame else '12'
        return rng.choice(pool)

    def arith(self, depth=0):
        rng = self.rng
        roll = rng.random()
        if depth >= 2 or roll < 0.5:
            kind = rng.random()
            if kind < 0.4:
                n = self.small()
                return str(n) if rng.random() < 0.7 else (hex(n) if n >= 0 else str(n))
            if kind < 0.55:
                n = self.large()
                return hex(n) if n >= 0 else str(n)
            if kind < 0.93:
                return self.name()
            if self.wild(0.4):
                return rng.choice(["'ab'", "''", '1.5', 'None', "'\\'"])
            if self.tame and depth > 0:
                # char literals only work as a whole expression
                return str(rng.randrange(0, 128))
            return rng.choice(["'a'", "'\\n'", "'0'", "'~'", "'\\x41'"])
        if roll < 0.58:
            return '(' + self.arith(depth + 1) + ')'
        if roll < 0.64:
            return rng.choice(['-', '~']) + self.arith(depth + 1)
        op = rng.choice(['+', '-', '*', '<<', '>>', '&', '|', '^', '+', '-', '+', '-'])
        if self.wild(0.15):
            op = rng.choice(['//', '%', '/', '=='])
        right = self.arith(depth + 1) if op not in ('<<', '>>') else str(rng.choice([0, 1, 2, 4, 12, 20, 31]))
        left = self.arith(depth + 1)
        if op == '*' and ("'" in left or "'" in right):
            # 'a' * <huge int> would try to allocate gigabytes
            op = '+'
        sep = rng.choice([' ', ' ', ''])
        return '{}{}{}{}{}'.format(left, sep, op, sep, right)

    def imm12(self):
        """An immediate that fits a 12-bit field (unless wild)."""
        rng = self.rng
        roll = rng.random()
        if roll < 0.4:
            return str(self.small())
        if roll < 0.5 and not self.tame:
            return self.arith()
        if roll < 0.55:
            return rng.choice(["'a'", "'\\n'", '0x7ff', '-0x800', '0b101', '0o17', '(1 << 11) - 1', '3 * 4 + 1'])
        ref = rng.choice(self.labels) if self.tame or rng.random() < 0.9 else self.name()
        forms = ['%lo({a})', '%lo({a})', '%lo {a}', '%lo(%position({r}, {a}))', '%lo(%offset({r}))', '%lo(%hi({a}))',
                 '%lo(%lo({a}))', '%LO({a})', '%lo(%position {r} {a})', '%offset({r})', '%offset {r}', '%position({r}, 0)',
                 '%lo(%hi(%position({r}, {a})))']
        if self.wild(0.3):
            forms = ['%hi({a})', '%position({r}, {a})', '%hi(%offset({r}))', '%offset()', '%position({r})', '%lo()', '%lo', '%offset({a})']
        return rng.choice(forms).format(a=self.arith(), r=ref)

    def imm20(self):
        rng = self.rng
        roll = rng.random()
        if roll < 0.25:
            return str(rng.choice([0, 1, 5, 0x12345, 0xfffff, 0x80000, 0x7ffff, rng.randrange(0, 2**20), -1, -524288]))
        if self.wild(0.3):
            return rng.choice([str(1048576), str(-524289), self.arith(), '%lo({})'.format(self.arith()), '%hi'])
        ref = rng.choice(self.labels)
        forms = ['%hi({a})', '%hi({a})', '%hi {a}', '%hi(%position({r}, {a}))', '%hi(%offset({r}))', '%hi(%hi({a}))',
                 '%hi(%lo({a}))', '%Hi({a})', '%lo(%hi({a}))', '%hi(%position {r} {a})']
        return rng.choice(forms).format(a=self.arith(), r=ref)

    def sep(self):
        return self.rng.choice([', ', ', ', ' ', ',', ' , '])

    def join(self, name, *args):
        rng = self.rng
        if rng.random() < 0.05:
            name = name.upper()
        out = name
        for i, arg in enumerate(args):
            out += (' ' if i == 0 else self.sep()) + str(arg)
        if rng.random() < 0.05:
            out += '  # ' + rng.choice(['comment', 'addi t0, t0, 1', "it's", '%hi(x)'])
        return rng.choice(['', '    ', '\t', '  ']) + out

    def target(self, numeric_ok=False):
        rng = self.rng
        if self.tame and not numeric_ok:
            return rng.choice(self.labels)
        if self.wild(0.25):
            return rng.choice(['nowhere', 'x0', '3', str(0x100000), '1048574', '-1048576', '4094', '4096', 'UNDEFINED'] + self.constants)
        if rng.random() < 0.1:
            return str(rng.choice([0, 2, 4, 8, -4, -8, 16, 254, -256]))
        return rng.choice(self.labels)

    def base_offset(self, name, reg_a, reg_b, word=False):
        rng = self.rng
        if rng.random() < 0.5:
            # the offset has to be a single token in this syntax
            off = str(rng.choice([0, 4, 8, 64, 124]) if word else self.small())
            if self.wild(0.2):
                off = rng.choice(['%lo(4)', '(4)', '4 + 4'])
            return self.join(name, reg_a, '{}({})'.format(off, reg_b))
        return self.join(name, reg_a, reg_b, rng.choice(['0', '4', '8', '64', '124']) if word else self.imm12())

    def data_line(self):
        rng = self.rng
        roll = rng.random()
        if roll < 0.25:
            choices = ['string hello', 'string "hello world"', 'string hello\\nworld', 'string  héllo # not a comment',
                       'string a\\x00b', 'STRING upper', 'string abc']
            if self.wild(0.2):
                choices = ['string', 'string a\\']
            return rng.choice(choices)
        if roll < 0.55:
            name = rng.choice(['bytes', 'shorts', 'ints', 'longs', 'longlongs'])
            limit = {'bytes': 2**8, 'shorts': 2**16, 'ints': 2**32, 'longs': 2**32, 'longlongs': 2**64}[name]
            values = [rng.choice([str(rng.randrange(0, limit)), hex(rng.randrange(0, 256)), '-1', '0b11', str(rng.randrange(-128, 128))])
                      for _ in range(rng.randrange(0 if not self.tame else 1, 6))]
            if self.wild(0.3):
                values.append(rng.choice(['FOO', '1.5', hex(limit), str(-limit)]))
            return self.join(name, *values)
        if roll < 0.8:
            fmt, value = rng.choice([('<B', '200'), ('<b', '-100'), ('<H', '0xffff'), ('<h', '-2'), ('<I', hex(rng.randrange(0, 2**32))),
                                     ('<i', str(self.small())), ('>I', '0x12345678'), ('<Q', hex(rng.randrange(0, 2**64))),
                                     ('<I', '%position({}, {})'.format(rng.choice(self.labels), hex(rng.randrange(0, 2**31)))),
                                     ('<i', '%offset({})'.format(rng.choice(self.labels))), ('<i', self.imm12()), ('<i', self.imm20()),
                                     ('<I', self.name())])
            if self.wild(0.3):
                fmt, value = rng.choice([('I', '1'), ('<f', '1'), ('<II', '1'), ('zz', '1'), ('<B', '256'), ('<I', '-1'), ('<I', '')])
            return self.join('pack', fmt, value)
        name = rng.choice(['db', 'dh', 'dw', 'dd'])
        return self.join(name, rng.choice([self.imm12(), str(self.small()), '-1', '0x7f', '100', self.imm20()]))

    def line(self):
        rng = self.rng
        mod = self.mod
        roll = rng.random()
        if roll < 0.07:
            name = rng.choice(['K', 'VAL', 'ADDR', 'OFF', 'MASK', 'N']) + str(len(self.constants))
            if self.wild(0.1):
                name = rng.choice(['t0', '12', 'x5', '0x10', name])
            self.in_constant = True
            value = rng.choice([self.arith(), self.arith(), str(self.small()), hex(abs(self.large()))])
            if self.wild(0.1):
                value = rng.choice(['%hi(4)', '%offset(l0)', '%lo(4)', '', '1 +'])
            self.in_constant = False
            self.constants.append(name)
            return '{} = {}'.format(name, value)
        if roll < 0.09:
            name = 'r' + str(len(self.aliases))
            self.aliases.append(name)
            return '{} = {}'.format(name, rng.choice(COMMON_REGS + ['x5', 't1', '9'] + (['40', '-1'] if not self.tame else [])))
        if roll < 0.17:
            if self.pending_labels and rng.random() < 0.9:
                return self.pending_labels.pop(0) + ':'
            return rng.choice(self.labels + ['dup', 'l0']) + ':'
        if roll < 0.27:
            name = rng.choice(sorted(mod.R_TYPE_INSTRUCTIONS))
            if name in ('slli', 'srli', 'srai'):
                return self.join(name, self.reg(), self.reg(), rng.choice(['0', '1', '5', '31'] + (['32', '-1', 'a0'] if not self.tame else [])))
            return self.join(name, self.reg(), self.reg(), self.reg())
        if roll < 0.42:
            name = rng.choice(['addi', 'addi', 'addi', 'andi', 'ori', 'xori', 'slti', 'sltiu', 'lw', 'lw', 'lb', 'lbu', 'lh',
                               'lhu', 'jalr', 'csrrw', 'csrrs', 'csrrc', 'csrrwi', 'csrrsi', 'csrrci'])
            if name in mod.BASE_OFFSET_INSTRUCTIONS:
                if name == 'jalr' and rng.random() < 0.3:
                    return self.join(name, self.reg())
                return self.base_offset(name, self.reg(), self.reg())
            if name.startswith('csr'):
                source = self.reg() if not name.endswith('i') else str(rng.randrange(0, 32))
                csr = rng.choice(['0x300', '0x305', '0x341', '0', '0x7ff', '-0x400', 'MSTATUS'] + (['0xc00', '0xfff', '4096', '-1'] if not self.tame else []))
                if csr == 'MSTATUS' and 'MSTATUS' not in self.constants:
                    csr = '0x300'
                return self.join(name, self.reg(), source, csr)
            return self.join(name, self.reg(), self.reg(), self.imm12())
        if roll < 0.47:
            return self.base_offset(rng.choice(sorted(mod.S_TYPE_INSTRUCTIONS)), self.reg(), self.reg())
        if roll < 0.54:
            return self.join(rng.choice(sorted(mod.B_TYPE_INSTRUCTIONS)), self.reg(), self.reg(), self.target(numeric_ok=True))
        if roll < 0.59:
            return self.join(rng.choice(['lui', 'auipc']), self.reg(), self.imm20())
        if roll < 0.63:
            if rng.random() < 0.4:
                return self.join('jal', self.target())
            return self.join('jal', self.reg(), self.target(numeric_ok=True))
        if roll < 0.78:
            name = rng.choice(sorted(mod.PSEUDO_INSTRUCTIONS))
            if name in ('nop', 'ret', 'fence'):
                if name == 'fence' and rng.random() < 0.5:
                    return self.join('fence', rng.choice(['0b1111', '3', '0'] + (['iorw', '16'] if not self.tame else [])),
                                     rng.choice(['0b1111', '0', '0xf'] + (['-1'] if not self.tame else [])))
                return self.join(name)
            if name == 'li':
                return self.join('li', self.reg(), rng.choice([str(self.small()), hex(abs(self.large())), str(self.large()),
                                                                self.arith(), self.imm12(), self.imm20(), self.name(),
                                                                '%position({}, {})'.format(rng.choice(self.labels), hex(self.large()))]))
            if name in ('mv', 'not', 'neg', 'seqz', 'snez', 'sltz', 'sgtz'):
                return self.join(name, self.reg(), self.reg())
            if name in ('beqz', 'bnez', 'blez', 'bgez', 'bltz', 'bgtz'):
                return self.join(name, self.reg(), rng.choice(self.labels) if self.tame else self.target())
            if name in ('bgt', 'ble', 'bgtu', 'bleu'):
                return self.join(name, self.reg(), self.reg(), rng.choice(self.labels) if self.tame else self.target())
            if name in ('j', 'jal', 'call', 'tail'):
                return self.join(name, rng.choice(self.labels) if self.tame else self.target())
            if name in ('jr', 'jalr'):
                return self.join(name, self.reg())
            return self.join(name)
        if roll < 0.80:
            return self.join(rng.choice(sorted(mod.IE_TYPE_INSTRUCTIONS)))
        if roll < 0.83:
            name = rng.choice(sorted(mod.A_TYPE_INSTRUCTIONS) + ['lr.w'])
            args = [self.reg(), self.reg()] if name == 'lr.w' else [self.reg(), self.reg(), self.reg()]
            if rng.random() < 0.4:
                args += [rng.choice(['0', '1']), rng.choice(['0', '1'] + (['2'] if not self.tame else []))]
            if self.wild(0.1):
                args += ['1']
            return self.join(name, *args)
        if roll < 0.90:
            # explicit compressed instructions
            if self.tame or rng.random() < 0.5:
                common = ['s0', 's1', 'a0', 'a1', 'a2', 'a3', 'a4', 'a5', 'x8', 'x15']
                anyreg = ['ra', 't0', 'a0', 's1', 't6', 'sp', 'x31', 'a5']
                template = rng.choice(self.TAME_COMPRESSED)
                return rng.choice(['', '    ']) + template.format(c=rng.choice(common), c2=rng.choice(common), r=rng.choice(anyreg),
                                                                  r2=rng.choice(anyreg), l=rng.choice(self.labels),
                                                                  k=rng.choice(self.constants) if self.constants else '0x123')
            name = rng.choice(['c.mv', 'c.add', 'c.jr', 'c.jalr', 'c.ebreak', 'c.addi', 'c.li', 'c.lui', 'c.slli', 'c.lwsp',
                               'c.addi16sp', 'c.nop', 'c.swsp', 'c.addi4spn', 'c.lw', 'c.sw', 'c.sub', 'c.xor', 'c.or', 'c.and',
                               'c.srli', 'c.srai', 'c.andi', 'c.beqz', 'c.bnez', 'c.jal', 'c.j'])
            if name in ('c.mv', 'c.add', 'c.sub', 'c.xor', 'c.or', 'c.and'):
                return self.join(name, self.reg(), self.reg())
            if name in ('c.jr', 'c.jalr'):
                return self.join(name, self.reg())
            if name in ('c.ebreak', 'c.nop'):
                return self.join(name)
            if name in ('c.lw', 'c.sw'):
                return self.base_offset(name, self.reg(), self.reg(), word=rng.random() < 0.7)
            if name in ('c.addi16sp', 'c.jal', 'c.j'):
                return self.join(name, rng.choice([self.imm12(), '%offset({})'.format(rng.choice(self.labels)), str(self.small())]))
            if name in ('c.beqz', 'c.bnez'):
                return self.join(name, self.reg(), rng.choice(['%offset({})'.format(rng.choice(self.labels)), str(self.small())]))
            return self.join(name, self.reg(), self.imm12())
        if roll < 0.92:
            return self.join('align', rng.choice(['4', '2', '8', '16', '4', '0x10'] +
                                                 (['3', '0', '-4', 'four', '4 4', '1'] if not self.tame else [])))
        if roll < 0.985:
            text = self.data_line()
            # keep the code after data aligned (most of the time)
            if rng.random() < 0.9:
                text += '\n' + rng.choice(['align 4', '    align 4', 'ALIGN 4', 'align 8'])
            return text
        if self.tame:
            return rng.choice(['include_bytes data.bin\nalign 4', 'include inc.asm', 'include "inc.asm"  # shared'])
        return rng.choice(['include_bytes data.bin', 'include_bytes sub.bin', 'include_bytes missing.bin', 'include_bytes',
                           'include inc.asm', 'include "inc.asm"', 'include missing.asm', 'include', 'error something went wrong',
                           'bogus t0, t1', 'addi', 'lw t0', '= 5', 'x = = 2', 'addi t0, t0', 'add t0, t0'])

    def program(self):
        rng = self.rng
        lines = [self.line() for _ in range(rng.randrange(1, 40))]
        # most programs should define all their labels (so that they get past the early passes)
        if self.tame or rng.random() < 0.8:
            for label in self.pending_labels:
                lines.insert(rng.randrange(0, len(lines) + 1), label + ':')
            self.pending_labels = []
        if rng.random() < 0.35:
            # a far-away constant target makes call / tail / li take their long forms
            lines.insert(0, 'FARAWAY = {}'.format(hex(rng.choice([0x20000000, 0x7ffff800, 0x100000, 0x1007fc, 0xfffff, 0x8000_0000,
                                                                    0xfffff800, rng.randrange(0x100000, 2**31) & ~1]))))
            self.constants.append('FARAWAY')
            for _ in range(rng.randrange(1, 4)):
                far = rng.choice(['call FARAWAY', 'tail FARAWAY', 'li t0, FARAWAY', 'li a0, FARAWAY + 0x7ff', 'lui a0, %hi(FARAWAY)',
                                  'addi a0, a0, %lo(FARAWAY)', 'lw a0, %lo(FARAWAY + 4)(a1)' if not self.tame else 'lw a0, a1, %lo(FARAWAY + 4)',
                                  'li t1, %position(l0, FARAWAY)', 'auipc t0, %hi(%offset(FARAWAY))', 'jalr ra, t0, %lo(%offset(FARAWAY))'] +
                                 (['j FARAWAY', 'beq a0, a1, FARAWAY'] if not self.tame else []))
                lines.insert(rng.randrange(1, len(lines) + 1), '    ' + far)
        if rng.random() < 0.1:
            lines.insert(rng.randrange(0, len(lines) + 1), rng.choice(['', '   ', '# only a comment', '\t# x']))
        return '\n'.join(lines) + rng.choice(['\n', '', '\n\n'])


def run_assemble(mod, handler, source, compress, seeded, include_dirs):
    handler.messages = []
    constants = dict(seeded[0]) if seeded[0] is not None else None
    labels = dict(seeded[1]) if seeded[1] is not None else None
    kwargs = {'compress': compress}
    if constants is not None:
        kwargs['constants'] = constants
    if labels is not None:
        kwargs['labels'] = labels
    if include_dirs is not None:
        kwargs['include_dirs'] = include_dirs
    result = outcome(mod.assemble, source, **kwargs)
    return (result,
            None if constants is None else list(constants.items()),
            None if labels is None else list(labels.items()),
            list(handler.messages))


def check_assemble(orig, new, workdir):
    rng = random.Random(SEED + 2)
    handlers = {}
    for mod in (orig, new):
        handler = ListHandler()
        logger = logging.getLogger(mod.__name__)
        logger.addHandler(handler)
        logger.setLevel(logging.INFO)
        logger.propagate = False
        handlers[mod] = handler

    # a place with include files; programs given as source resolve includes against the cwd
    progdir = os.path.join(workdir, 'programs')
    incdir = os.path.join(progdir, 'extra')
    os.makedirs(incdir)
    with open(os.path.join(progdir, 'inc.asm'), 'w') as f:
        f.write('INCLUDED = 0x20000800\nincluded_label:\n    addi t0, t0, %lo(INCLUDED)\n    ret\n')
    with open(os.path.join(progdir, 'data.bin'), 'wb') as f:
        f.write(bytes(range(7)))
    with open(os.path.join(incdir, 'sub.bin'), 'wb') as f:
        f.write(b'\xff\x00\xaa')
    os.chdir(progdir)

    stats = {'ok': 0, 'err': 0}
    for n in range(N_PROGRAMS):
        seed = rng.randrange(2**32)
        source = ProgramGenerator(new, random.Random(seed)).program()
        seeded_choice = rng.random()
        if seeded_choice < 0.7:
            seeded = ({}, {})
        elif seeded_choice < 0.85:
            seeded = ({'FOO': 42, 'K0': -3}, {'l99': 0x400})
        elif seeded_choice < 0.95:
            seeded = (None, None)
        else:
            seeded = ({'FOO': 42}, None)
        include_dirs = rng.choice([None, None, [], [incdir], [incdir, progdir]])

        as_file = rng.random() < 0.1
        if as_file:
            path = os.path.join(progdir, 'prog_{}.asm'.format(n))
            with open(path, 'w', encoding='utf-8') as f:
                f.write(source)
            source_arg = path
        else:
            source_arg = source

        for compress in (False, True):
            a = run_assemble(orig, handlers[orig], source_arg, compress, seeded, include_dirs)
            b = run_assemble(new, handlers[new], source_arg, compress, seeded, include_dirs)
            check('assemble', 'program seed {} compress={}\n{}'.format(seed, compress, source), a, b)
            stats['ok' if a[0][0] == 'value' else 'err'] += 1
        if as_file:
            os.remove(path)

    # the shipped examples (they need the definitions on the search path)
    examples = os.path.join(ROOT, 'examples')
    for name in sorted(os.listdir(examples)):
        if not name.endswith('.asm'):
            continue
        for compress in (False, True):
            results = []
            for mod in (orig, new):
                dirs = [os.path.join(os.path.dirname(os.path.abspath(mod.__file__)), 'definitions')]
                results.append(run_assemble(mod, handlers[mod], os.path.join(examples, name), compress, ({}, {}), dirs))
            check('assemble', 'example {} compress={}'.format(name, compress), results[0], results[1])
            stats['ok' if results[0][0][0] == 'value' else 'err'] += 1

    # keyword handling of assemble() itself
    tiny = 'A = 1\nstart:\n  addi t0, zero, A\n'
    for kwargs in ({}, {'constants': None}, {'labels': None}, {'compress': True}, {'include_dirs': None}, {'include_dirs': ()},
                   {'bogus': 1}):
        check('assemble', 'kwargs {}'.format(kwargs), outcome(orig.assemble, tiny, **kwargs), outcome(new.assemble, tiny, **kwargs))
    check('assemble', 'positional constants', outcome(orig.assemble, tiny, {}), outcome(new.assemble, tiny, {}))
    check('assemble', 'no args', outcome(orig.assemble), outcome(new.assemble))

    for mod in (orig, new):
        logger = logging.getLogger(mod.__name__)
        logger.removeHandler(handlers[mod])
        logger.setLevel(logging.NOTSET)
        logger.propagate = True
    os.chdir(workdir)
    return stats


# ---------------------------------------------------------------------------
# 4. command line
# ---------------------------------------------------------------------------

CLI_PROGRAMS = {
    'good.asm': 'FOO = 0x20000000\nstart:\n    li t0, FOO + 12\n    addi a0, a0, 1\nloop:\n    j loop\nend:\n    bytes 1 2 3\n',
    'compressible.asm': 'start:\n    addi s0, s0, 1\n    mv a0, a1\n    lw a0, 4(a1)\nmiddle:\n    li a0, 5\n    j start\n    call start\nend:\n',
    'uses_inc.asm': 'include inc.asm\nmain:\n    li t0, INCLUDED\n    call included_label\n',
    'uses_defs.asm': 'include GD32VF103.asm\nmain:\n    li t0, RCU_BASE_ADDR\n',
    'uses_bytes.asm': 'start:\n    include_bytes blob.bin\nend:\n',
    'bad_syntax.asm': 'start:\n    addi t0, t0\n    frobnicate t0\n',
    'bad_imm.asm': 'start:\n    addi t0, t0, 5000\n',
    'bad_undefined.asm': 'start:\n    addi t0, t0, NOPE\n    j start\n',
    'bad_late.asm': 'start:\n    addi t0, t0, 1\nmid:\n    c.addi t0, 100\n',
    'error.asm': 'FOO = 1\nerror this is a "custom" error\\twith tab\n',
    'leaky.asm': "start:\n    addi t0, t0, '\\'\n",
    'empty.asm': '',
    'labels_only.asm': 'a:\nb:\nc:\n',
    'unicode.asm': 'start:\n    string h\u00e9llo w\u00f6rld\nend:\n',
}

SENTINEL = b'PRE-EXISTING CONTENT\n'


def make_case_dir(case_dir, preexisting):
    os.makedirs(case_dir)
    for name, text in CLI_PROGRAMS.items():
        with open(os.path.join(case_dir, name), 'w', encoding='utf-8') as f:
            f.write(text)
    os.makedirs(os.path.join(case_dir, 'inc'))
    os.makedirs(os.path.join(case_dir, 'inc2'))
    os.makedirs(os.path.join(case_dir, 'outdir'))
    with open(os.path.join(case_dir, 'inc', 'inc.asm'), 'w') as f:
        f.write('INCLUDED = 0x20000800\nincluded_label:\n    ret\n')
    with open(os.path.join(case_dir, 'inc2', 'inc.asm'), 'w') as f:
        f.write('INCLUDED = 7\nincluded_label:\n    nop\n    ret\n')
    with open(os.path.join(case_dir, 'inc2', 'blob.bin'), 'wb') as f:
        f.write(b'\x01\x02\x03\x04\x05')
    with open(os.path.join(case_dir, 'notadir'), 'w') as f:
        f.write('plain file\n')
    for name in preexisting:
        with open(os.path.join(case_dir, name), 'wb') as f:
            f.write(SENTINEL)


def snapshot(case_dir):
    files = {}
    for base, dirs, names in os.walk(case_dir):
        dirs.sort()
        for d in dirs:
            files[os.path.relpath(os.path.join(base, d), case_dir) + '/'] = None
        for name in sorted(names):
            path = os.path.join(base, name)
            with open(path, 'rb') as f:
                files[os.path.relpath(path, case_dir)] = f.read()
    return files


def normalise(text, replacements):
    for old, new in replacements:
        text = text.replace(old, new)
    # uncaught exceptions: the traceback names files and line numbers of the implementation,
    # keep the part that a user would read as the failure (the final exception lines)
    if 'Traceback (most recent call last):' in text:
        head, _, tail = text.partition('Traceback (most recent call last):')
        kept = [l for l in tail.splitlines() if l and not l.startswith(' ')]
        text = head + 'Traceback (most recent call last):\n' + '\n'.join(kept) + '\n'
    return text


PREEXISTING_NAMES = ['bb.out', 'out.bin', 'out.bin.hex', 'bb.out.hex', 'labels.txt', 'outdir/o.bin', 'outdir/o.bin.hex']


def cli_case_matrix():
    cases = []
    programs = ['good.asm', 'compressible.asm', 'bad_syntax.asm', 'bad_imm.asm', 'bad_late.asm', 'error.asm', 'missing.asm']
    hex_options = [[], ['--hex-offset', '0'], ['--hex-offset', '0x08000000'], ['--hex-offset=0o20'], ['--hex-offset', 'zz'],
                   ['--hex-offset', ''], ['--hex-offset', '0x'], ['--hex-offset', '1_0']]
    out_options = [[], ['-o', 'out.bin'], ['--output', 'outdir/o.bin']]
    label_options = [[], ['-l', 'labels.txt']]
    for program, hexo, out, lab, compress, pre in itertools.product(programs, hex_options, out_options, label_options,
                                                                     ([], ['-c']), (False, True)):
        argv = compress + out + lab + hexo
        # vary where the positional argument goes
        position = (len(cases) % 3)
        if position == 0:
            argv = [program] + argv
        elif position == 1:
            argv = argv + [program]
        else:
            argv = argv[:len(compress)] + [program] + argv[len(compress):]
        cases.append((argv, PREEXISTING_NAMES if pre else []))

    specials = [
        [], ['-h'], ['--help'], ['--version'], ['--version', 'good.asm'], ['good.asm', '--version'], ['-v', '--version'],
        ['good.asm', '--version', '--hex-offset', 'zz'], ['missing.asm', '--version'], ['--bogus'], ['good.asm', '--bogus'],
        ['good.asm', 'extra.asm'], ['-o'], ['good.asm', '-o'], ['good.asm', '-l'], ['good.asm', '-i'], ['good.asm', '--hex-offset'],
        ['good.asm', '--hex-offset', '-1'], ['good.asm', '--hex-offset', '-0x10'], ['good.asm', '--hex-offset', '0x100000000'],
        ['good.asm', '--hex-offset', '65536'], ['good.asm', '--hex-offset', ' 16 '], ['good.asm', '--hex-offset', '1.5'],
        ['good.asm', '--hex-offset', '00'], ['good.asm', '--hex-offset', '010'], ['good.asm', '--hex', '4'],
        ['good.asm', '-o', ''], ['good.asm', '-l', ''], ['good.asm', '-o', 'nodir/out.bin'], ['good.asm', '-o', 'nodir/out.bin', '-l', 'labels.txt'],
        ['good.asm', '-l', 'nodir/labels.txt'], ['good.asm', '-l', 'nodir/labels.txt', '-o', 'out.bin', '--hex-offset', '0'],
        ['good.asm', '-o', 'outdir'], ['good.asm', '-l', 'outdir'], ['good.asm', '-o', 'out.bin', '-l', 'out.bin'],
        ['good.asm', '-o', 'good.asm'], ['good.asm', '-o', 'nodir/out.bin', '--hex-offset', '0'],
        ['good.asm', '-o', 'nodir/out.bin', '--hex-offset', 'bad'],
        ['good.asm', '-oout.bin', '-llabels.txt'], ['good.asm', '--output=out.bin', '--labels=labels.txt'],
        ['good.asm', '-o', 'a.bin', '-o', 'b.bin'], ['good.asm', '-l', 'a.txt', '-l', 'b.txt'], ['-c', '-c', 'good.asm'],
        ['-cv', 'good.asm'], ['-v', 'good.asm'], ['-v', '-c', 'compressible.asm', '-l', 'labels.txt', '--hex-offset', '0'],
        ['-v', 'bad_imm.asm'], ['-v', 'missing.asm'], ['-v', 'empty.asm'], ['empty.asm'], ['empty.asm', '--hex-offset', '0', '-l', 'labels.txt'],
        ['labels_only.asm', '-l', 'labels.txt'], ['labels_only.asm', '-l', 'labels.txt', '-c', '--hex-offset', '4'],
        ['unicode.asm', '-l', 'labels.txt'], ['leaky.asm'], ['leaky.asm', '-o', 'out.bin', '-l', 'labels.txt', '--hex-offset', '0'],
        ['outdir'], ['notadir'], ['inc'], ['./good.asm'], ['outdir/../good.asm'],
        ['uses_inc.asm'], ['uses_inc.asm', '-i', 'inc'], ['uses_inc.asm', '-i', 'inc2'], ['uses_inc.asm', '-i', 'inc', '-i', 'inc2'],
        ['uses_inc.asm', '-i', 'inc2', '-i', 'inc'], ['uses_inc.asm', '--include', 'inc', '-c', '-l', 'labels.txt'],
        ['uses_inc.asm', '-i', 'nodir'], ['uses_inc.asm', '-i', 'inc', '-i', 'nodir'], ['uses_inc.asm', '-i', 'nodir', '-i', 'alsonodir'],
        ['uses_inc.asm', '-i', 'notadir'], ['uses_inc.asm', '-i', ''], ['uses_inc.asm', '-i', 'nodir', '--hex-offset', 'zz'],
        ['missing.asm', '-i', 'nodir'], ['missing.asm', '--hex-offset', 'zz'], ['missing.asm', '-i', 'nodir', '--hex-offset', 'zz'],
        ['good.asm', '-i', 'nodir', '--hex-offset', 'zz', '-o', 'out.bin'], ['good.asm', '-i', 'inc', '--hex-offset', 'zz', '-o', 'out.bin'],
        ['uses_bytes.asm'], ['uses_bytes.asm', '-i', 'inc2', '-l', 'labels.txt'], ['uses_bytes.asm', '-i', 'inc'],
        ['uses_defs.asm'], ['uses_defs.asm', '--include-definitions'], ['uses_defs.asm', '--include-definitions', '-c', '-l', 'labels.txt'],
        ['-v', 'uses_defs.asm', '--include-definitions', '-i', 'inc'], ['-v', 'uses_inc.asm', '--include-definitions', '-i', 'inc2', '-i', 'inc'],
        ['uses_defs.asm', '--include-definitions', '--hex-offset', '0x08000000', '-o', 'outdir/o.bin'],
        ['good.asm', '--include-definitions', '-i', 'nodir'], ['bad_undefined.asm', '--include-definitions', '-o', 'out.bin', '-l', 'labels.txt'],
        ['bad_undefined.asm', '-c'], ['error.asm', '-v'], ['bad_syntax.asm', '-v', '-c'],
    ]
    for argv in specials:
        cases.append((argv, []))
        cases.append((argv, PREEXISTING_NAMES))
    return cases


def random_cli_argv(rng):
    working = ['good.asm', 'compressible.asm', 'uses_inc.asm', 'uses_bytes.asm', 'labels_only.asm', 'unicode.asm', 'empty.asm']
    programs = working * 3 + list(CLI_PROGRAMS) + ['missing.asm', 'outdir']

    def pick(good, bad):
        return rng.choice(good) if rng.random() < 0.85 else rng.choice(bad)

    argv = []
    if rng.random() < 0.98:
        argv.append([rng.choice(programs)])
    if rng.random() < 0.4:
        argv.append(['-c'])
    for _ in range(rng.choice([0, 1, 1, 2, 2, 3])):
        argv.append([rng.choice(['-i', '--include']), pick(['inc', 'inc2', 'outdir', '.', '..', 'inc/../inc2'], ['nodir', 'notadir', ''])])
    if rng.random() < 0.5:
        argv.append([rng.choice(['-o', '--output']), pick(['out.bin', 'outdir/o.bin', 'bb.out', 'labels.txt', './x.bin'], ['nodir/o.bin', '', 'outdir'])])
    if rng.random() < 0.5:
        argv.append([rng.choice(['-l', '--labels']), pick(['labels.txt', 'outdir/l.txt', 'out.bin'], ['nodir/l.txt', '', 'outdir'])])
    if rng.random() < 0.55:
        argv.append(['--hex-offset', pick(['0', '0', '0x0', '00', '4', '0x08000000', '0o10', '0b11', ' 8', '0x10000', '1_6',
                                           str(rng.randrange(0, 2**32)), hex(rng.randrange(0, 2**20))],
                                          ['zz', '', '0x', '12abc', '1e3', '-4', '08'])])
    if rng.random() < 0.3:
        argv.append(['--include-definitions'])
    if rng.random() < 0.3:
        argv.append(['-v'])
    if rng.random() < 0.03:
        argv.append(['--version'])
    if rng.random() < 0.02:
        argv.append([rng.choice(['--bogus', '-x', 'extra.asm', '-h'])])
    rng.shuffle(argv)
    return [token for group in argv for token in group]


def run_cli_subprocess(variant_root, case_dir, argv):
    code = ('import sys; sys.argv[0] = "bronzebeard"; '
            'from bronzebeard.asm import cli_main; cli_main()')
    env = dict(os.environ)
    env['PYTHONPATH'] = variant_root
    env['PYTHONDONTWRITEBYTECODE'] = '1'
    env['PYTHONIOENCODING'] = 'utf-8'
    env['COLUMNS'] = '80'
    proc = subprocess.run([sys.executable, '-c', code] + argv, cwd=case_dir, env=env,
                          stdout=subprocess.PIPE, stderr=subprocess.PIPE, stdin=subprocess.DEVNULL)
    return proc.returncode, proc.stdout.decode('utf-8', 'replace'), proc.stderr.decode('utf-8', 'replace')


def run_cli_module_subprocess(variant_root, case_dir, argv):
    env = dict(os.environ)
    env['PYTHONPATH'] = variant_root
    env['PYTHONDONTWRITEBYTECODE'] = '1'
    env['PYTHONIOENCODING'] = 'utf-8'
    env['COLUMNS'] = '80'
    proc = subprocess.run([sys.executable, '-m', 'bronzebeard.asm'] + argv, cwd=case_dir, env=env,
                          stdout=subprocess.PIPE, stderr=subprocess.PIPE, stdin=subprocess.DEVNULL)
    return proc.returncode, proc.stdout.decode('utf-8', 'replace'), proc.stderr.decode('utf-8', 'replace')


def subprocess_case(args):
    index, argv, preexisting, base, roots, runner = args
    results = []
    for variant in ('orig', 'new'):
        case_dir = os.path.join(base, 'case{}_{}'.format(index, variant))
        make_case_dir(case_dir, preexisting)
        code, out, err = runner(roots[variant], case_dir, argv)
        replacements = [(case_dir, '<CASE>'), (roots[variant], '<ROOT>')]
        results.append((code, normalise(out, replacements), normalise(err, replacements), snapshot(case_dir)))
        shutil.rmtree(case_dir)
    return argv, preexisting, results


def run_cli_inprocess(mod, variant_root, case_dir, argv):
    saved_argv = sys.argv
    saved_cwd = os.getcwd()
    root_logger = logging.getLogger()
    saved_handlers = list(root_logger.handlers)
    saved_level = root_logger.level
    out, err = io.StringIO(), io.StringIO()
    sys.argv = ['bronzebeard'] + list(argv)
    os.chdir(case_dir)
    try:
        with contextlib.redirect_stdout(out), contextlib.redirect_stderr(err):
            result = outcome(mod.cli_main)
    finally:
        sys.argv = saved_argv
        os.chdir(saved_cwd)
        for handler in list(root_logger.handlers):
            if handler not in saved_handlers:
                root_logger.removeHandler(handler)
        root_logger.setLevel(saved_level)
    replacements = [(case_dir, '<CASE>'), (variant_root, '<ROOT>'), (mod.__name__, '<MODULE>')]

    def scrub(value):
        if isinstance(value, str):
            return normalise(value, replacements)
        if isinstance(value, tuple):
            return tuple(scrub(v) for v in value)
        return value

    return scrub(result), normalise(out.getvalue(), replacements), normalise(err.getvalue(), replacements)


def check_cli_subprocess(workdir, orig_root):
    roots = {'orig': orig_root, 'new': NEW_ROOT}
    base = os.path.join(workdir, 'cli')
    os.makedirs(base)

    # a) subprocess runs over the structured matrix (what a user of the console script sees)
    cases = cli_case_matrix()
    jobs = [(i, argv, pre, base, roots, run_cli_subprocess) for i, (argv, pre) in enumerate(cases)]
    # ... and a handful through "python -m bronzebeard.asm"
    module_cases = [c for c in cases if c[0] in (['good.asm'], ['-h'], ['--version'], ['missing.asm', '--version'], ['leaky.asm'],
                                                  ['-v', 'good.asm'], ['uses_defs.asm', '--include-definitions'])]
    module_cases += cases[:40:3]
    jobs += [(len(cases) + i, argv, pre, base, roots, run_cli_module_subprocess) for i, (argv, pre) in enumerate(module_cases)]

    stats = {'exit0': 0, 'exit1': 0, 'exit2': 0, 'other': 0}
    with ThreadPoolExecutor(max_workers=JOBS) as pool:
        for argv, pre, results in pool.map(subprocess_case, jobs):
            check('cli-subprocess', 'argv {} preexisting={}'.format(argv, bool(pre)), results[0], results[1])
            key = 'exit{}'.format(results[0][0])
            stats[key if key in stats else 'other'] += 1
    return stats


def check_cli_inprocess(orig, new, workdir, orig_root):
    # b) in-process runs (patched sys.argv) over many random option combinations
    roots = {'orig': orig_root, 'new': NEW_ROOT}
    base = os.path.join(workdir, 'cli_inprocess')
    os.makedirs(base)
    rng = random.Random(SEED + 3)
    inproc = {'exit-none': 0, 'exit-other': 0, 'raise': 0}
    for n in range(N_CLI_RANDOM):
        argv = random_cli_argv(rng)
        preexisting = rng.choice([[], PREEXISTING_NAMES, rng.sample(PREEXISTING_NAMES, 3)])
        results = []
        for variant, mod in (('orig', orig), ('new', new)):
            case_dir = os.path.join(base, 'inproc{}_{}'.format(n, variant))
            make_case_dir(case_dir, preexisting)
            result = run_cli_inprocess(mod, roots[variant], case_dir, argv)
            results.append(result + (snapshot(case_dir),))
            shutil.rmtree(case_dir)
        check('cli-inprocess', 'argv {} preexisting={}'.format(argv, preexisting), results[0], results[1])
        first = results[0][0]
        if first[0] == 'value' or (first[0] == 'exit' and first[1] in (None, 0)):
            inproc['exit-none'] += 1
        elif first[0] == 'exit':
            inproc['exit-other'] += 1
        else:
            inproc['raise'] += 1
    return inproc


# ---------------------------------------------------------------------------

def main():
    # char literals such as '\\q' make eval() warn about invalid escapes (in both versions)
    warnings.simplefilter('ignore')
    workdir = os.path.realpath(tempfile.mkdtemp(prefix='bb_equiv_'))
    start_cwd = os.getcwd()
    try:
        orig_root = setup_original(workdir)
        orig = load_module('bb_asm_orig', os.path.join(orig_root, 'bronzebeard', 'asm.py'))
        new = load_module('bb_asm_new', os.path.join(NEW_ROOT, 'bronzebeard', 'asm.py'))
        with open(orig.__file__, 'rb') as f, open(new.__file__, 'rb') as g:
            identical = f.read() == g.read()
        print('original: {}'.format(orig.__file__))
        print('refactor: {}{}'.format(new.__file__, '  (WARNING: identical to HEAD, nothing to compare)' if identical else ''))
        # "from bronzebeard import __version__" inside cli_main: make both see the same package
        sys.path.insert(0, ROOT)

        clock = time.time()

        def elapsed():
            nonlocal clock
            now = time.time()
            spent, clock = now - clock, now
            return '{:.1f}s'.format(spent)

        check_helpers(orig, new)
        print('helpers:      {} comparisons [{}]'.format(COUNTS.get('helpers', 0), elapsed()), flush=True)
        check_expressions(orig, new)
        print('expressions:  {} comparisons [{}]'.format(COUNTS.get('expressions', 0), elapsed()), flush=True)
        stats = check_assemble(orig, new, workdir)
        print('assemble:     {} comparisons ({} assembled, {} failed the same way) [{}]'.format(
            COUNTS.get('assemble', 0), stats['ok'], stats['err'], elapsed()), flush=True)
        sub = check_cli_subprocess(workdir, orig_root)
        print('cli (subprocess): {} comparisons, exit statuses {} [{}]'.format(COUNTS.get('cli-subprocess', 0), sub, elapsed()), flush=True)
        inproc = check_cli_inprocess(orig, new, workdir, orig_root)
        print('cli (in-process): {} comparisons, outcomes {} [{}]'.format(COUNTS.get('cli-inprocess', 0), inproc, elapsed()), flush=True)
    finally:
        os.chdir(start_cwd)
        shutil.rmtree(workdir, ignore_errors=True)

    if FAILURES:
        print('FAILED: {} mismatches'.format(len(FAILURES)))
        return 1
    print('OK: all comparisons match')
    return 0


if __name__ == '__main__':
    sys.exit(main())
