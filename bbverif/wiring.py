"""Token -> constructor -> attribute -> args() -> encoder-parameter dataflow for parse_item (and similar
straight-line token-shuffling code).  A tiny path-enumerating provenance evaluator: values are *where a token went*,
never token contents.

Provenance values (tuples):
  ('tok', k)            tokens[k]
  ('tokend', k)         tokens[-k]
  ('rest', k, e)        tokens[k:len-e] as a list
  ('lower', p)          p.lower()
  ('list', [p...])      list literal
  ('imm', p)            parse_immediate(p, line)
  ('int', p)            int(p, base=0)
  ('const', v)          folded constant
  ('line',)             the Line object
  ('call', fname, [p])  other call (kept symbolically)
  ('expr', text)        anything else
"""
import ast

from .core import AnalysisError
from .astutil import fold, NotConstant, unparse, dotted, find_function


class Path:
    def __init__(self):
        self.env = {}
        self.conds = []        # (text, polarity)
        self.min_tokens = 0
        self.exact_tokens = None
        self.events = []

    def clone(self):
        p = Path()
        p.env = dict(self.env)
        p.conds = list(self.conds)
        p.min_tokens = self.min_tokens
        p.exact_tokens = self.exact_tokens
        p.events = list(self.events)
        return p


class Outcome:
    def __init__(self, kind, path, node, cls=None, args=None, kwargs=None):
        self.kind = kind       # 'return' | 'raise'
        self.path = path
        self.node = node
        self.cls = cls
        self.args = args or []
        self.kwargs = kwargs or {}

    def cond_text(self):
        return ' and '.join(('' if c[1] else 'not ') + '(' + c[0] + ')' for c in self.path.conds) or 'always'


class TokenFlow:
    def __init__(self, facts, tokens_name='tokens', line_name='line', consts=None):
        self.facts = facts
        self.tokens_name = tokens_name
        self.line_name = line_name
        self.consts = consts or facts.consts

    def ev(self, node, path):
        if isinstance(node, ast.Name):
            if node.id in path.env:
                return path.env[node.id]
            if node.id == self.tokens_name:
                return ('rest', 0, 0)
            if node.id == self.line_name:
                return ('line',)
            try:
                return ('const', fold(node, self.consts))
            except NotConstant:
                return ('expr', node.id)
        if isinstance(node, ast.Constant):
            return ('const', node.value)
        if isinstance(node, ast.List):
            return ('list', [self.ev(e, path) for e in node.elts])
        if isinstance(node, ast.Subscript) and isinstance(node.value, ast.Name) and node.value.id == self.tokens_name:
            try:
                k = fold(node.slice)
                if isinstance(k, int):
                    return ('tok', k) if k >= 0 else ('tokend', -k)
            except NotConstant:
                pass
        if isinstance(node, ast.Subscript):
            base = self.ev(node.value, path)
            try:
                k = fold(node.slice)
            except NotConstant:
                k = None
            if base[0] == 'rest' and isinstance(k, int) and k >= 0:
                return ('tok', base[1] + k)
            if base[0] == 'list' and isinstance(k, int) and 0 <= k < len(base[1]):
                return base[1][k]
        if isinstance(node, ast.Call):
            fn = dotted(node.func)
            if isinstance(node.func, ast.Attribute) and node.func.attr == 'lower' and not node.args:
                return ('lower', self.ev(node.func.value, path))
            if fn == 'parse_immediate' and node.args:
                return ('imm', self.ev(node.args[0], path))
            if fn == 'int' and node.args:
                return ('int', self.ev(node.args[0], path))
            return ('call', fn or unparse(node.func), [self.ev(a, path) for a in node.args],
                    {kw.arg: self.ev(kw.value, path) for kw in node.keywords if kw.arg})
        try:
            return ('const', fold(node, self.consts))
        except NotConstant:
            return ('expr', unparse(node))

    def unpack(self, targets, value, path, node):
        """targets: list of ast targets (Name / Starred); value provenance."""
        star = [i for i, t in enumerate(targets) if isinstance(t, ast.Starred)]
        n = len(targets)
        if value[0] == 'rest':
            k0, e0 = value[1], value[2]
            if not star:
                need = k0 + n + e0
                if e0 == 0 and k0 == 0:
                    path.exact_tokens = n
                for i, t in enumerate(targets):
                    self.bind(t, ('tok', k0 + i), path)
                path.min_tokens = max(path.min_tokens, need)
                return
            s = star[0]
            after = n - s - 1
            for i, t in enumerate(targets):
                if i < s:
                    self.bind(t, ('tok', k0 + i), path)
                elif i == s:
                    self.bind(t.value, ('rest', k0 + s, e0 + after), path)
                else:
                    self.bind(t, ('tokend', e0 + (n - i)), path)
            path.min_tokens = max(path.min_tokens, k0 + n - 1 + e0)
            return
        if value[0] == 'list' and not star and len(value[1]) == n:
            for t, v in zip(targets, value[1]):
                self.bind(t, v, path)
            return
        if value[0] == 'const' and isinstance(value[1], (tuple, list)) and not star and len(value[1]) == n:
            for t, v in zip(targets, value[1]):
                self.bind(t, ('const', v), path)
            return
        for t in targets:
            self.bind(t.value if isinstance(t, ast.Starred) else t, ('expr', 'unpack of ' + str(value)), path)

    def bind(self, target, value, path):
        if isinstance(target, ast.Name):
            path.env[target.id] = value

    def run(self, body, path=None):
        """Enumerate all paths through a statement list; returns list of Outcome."""
        outcomes = []
        self._block(body, path or Path(), outcomes)
        return outcomes

    def _block(self, body, path, outcomes):
        """Returns list of live paths after the block."""
        live = [path]
        for st in body:
            nxt = []
            for p in live:
                nxt.extend(self._stmt(st, p, outcomes))
            live = nxt
            if not live:
                break
        return live

    def _stmt(self, st, path, outcomes):
        if isinstance(st, ast.Assign) and len(st.targets) == 1:
            tgt = st.targets[0]
            if isinstance(tgt, ast.Tuple):
                if isinstance(st.value, ast.Tuple) and len(st.value.elts) == len(tgt.elts):
                    vals = [self.ev(e, path) for e in st.value.elts]
                    for t, v in zip(tgt.elts, vals):
                        self.bind(t, v, path)
                else:
                    self.unpack(tgt.elts, self.ev(st.value, path), path, st)
            else:
                self.bind(tgt, self.ev(st.value, path), path)
            return [path]
        if isinstance(st, ast.If):
            t = path.clone()
            f = path
            text = unparse(st.test)
            t.conds.append((text, True, st.test))
            f.conds.append((text, False, st.test))
            self._learn(st.test, t, True)
            self._learn(st.test, f, False)
            out = self._block(st.body, t, outcomes)
            out += self._block(st.orelse, f, outcomes) if st.orelse else [f]
            return out
        if isinstance(st, ast.Return):
            cls, args, kwargs = None, [], {}
            if isinstance(st.value, ast.Call) and isinstance(st.value.func, ast.Name):
                cls = st.value.func.id
                for a in st.value.args:
                    if isinstance(a, ast.Starred):
                        args.append(('star', self.ev(a.value, path)))
                    else:
                        args.append(self.ev(a, path))
                kwargs = {kw.arg: self.ev(kw.value, path) for kw in st.value.keywords if kw.arg}
            outcomes.append(Outcome('return', path, st, cls, args, kwargs))
            return []
        if isinstance(st, ast.Raise):
            outcomes.append(Outcome('raise', path, st))
            return []
        if isinstance(st, ast.Try):
            # body on the normal path; each handler as an alternative path taken from the start of the try
            alt = [path.clone() for _ in st.handlers]
            out = self._block(st.body, path, outcomes)
            for h, p in zip(st.handlers, alt):
                p.conds.append(('except ' + (unparse(h.type) if h.type else '*'), True, None))
                out += self._block(h.body, p, outcomes)
            return out
        if isinstance(st, (ast.Expr, ast.Pass)):
            return [path]
        if isinstance(st, ast.AugAssign):
            self.bind(st.target, ('expr', unparse(st)), path)
            return [path]
        raise AnalysisError('token-flow: statement form {} not modelled: {}'.format(type(st).__name__, unparse(st).split('\n')[0]))

    def _learn(self, test, path, polarity):
        # len(tokens) == n / != n
        if (isinstance(test, ast.Compare) and len(test.ops) == 1 and isinstance(test.left, ast.Call)
                and dotted(test.left.func) == 'len' and test.left.args and isinstance(test.left.args[0], ast.Name)
                and test.left.args[0].id == self.tokens_name):
            try:
                n = fold(test.comparators[0])
            except NotConstant:
                return
            if (isinstance(test.ops[0], ast.Eq) and polarity) or (isinstance(test.ops[0], ast.NotEq) and not polarity):
                path.exact_tokens = n


def parse_arms(facts):
    """The if/elif chain of parse_item: list of (test node, body, kind, key) in order + else body."""
    fn = facts.funcs.get('parse_item')
    if fn is None:
        raise AnalysisError('anchor vanished: parse_item')
    chain = None
    prelude = []
    for st in fn.body:
        if isinstance(st, ast.If):
            chain = st
            break
        prelude.append(st)
    if chain is None:
        raise AnalysisError('anchor vanished: dispatch chain of parse_item')
    arms = []
    cur = chain
    while True:
        arms.append((cur.test, cur.body))
        if len(cur.orelse) == 1 and isinstance(cur.orelse[0], ast.If):
            cur = cur.orelse[0]
        else:
            else_body = cur.orelse
            break
    return fn, prelude, arms, else_body


def arm_key(test):
    """Classify an arm's test: ('table', NAME) for `head in NAME`, ('head', 'x') for head == 'x', else ('other', text)."""
    if isinstance(test, ast.Compare) and len(test.ops) == 1 and isinstance(test.left, ast.Name) and test.left.id == 'head':
        c = test.comparators[0]
        if isinstance(test.ops[0], ast.In) and isinstance(c, ast.Name):
            return ('table', c.id)
        if isinstance(test.ops[0], ast.Eq) and isinstance(c, ast.Constant):
            return ('head', c.value)
    return ('other', unparse(test))


def parse_item_outcomes(facts):
    """{arm key: [Outcome]} for every arm of parse_item."""
    fn, prelude, arms, else_body = parse_arms(facts)
    flow = TokenFlow(facts)
    base = Path()
    for st in prelude:
        # line = line_tokens.line ; tokens = line_tokens.tokens ; head = tokens[0].lower()
        if isinstance(st, ast.Assign) and isinstance(st.targets[0], ast.Name):
            name = st.targets[0].id
            if name in ('line', 'tokens'):
                continue
            base.env[name] = flow.ev(st.value, base)
    out = []
    for test, body in arms:
        outcomes = flow.run(body, base.clone())
        out.append((arm_key(test), test, outcomes))
    else_out = flow.run(else_body, base.clone()) if else_body else []
    return out, else_out


def chain_outcomes(facts, fn_name, tokens_name, line_name='line'):
    """Generic version of parse_item_outcomes for a function whose body is `prelude; if/elif chain` over a token list
    parameter (parse_immediate)."""
    fn = facts.funcs.get(fn_name)
    if fn is None:
        raise AnalysisError('anchor vanished: ' + fn_name)
    flow = TokenFlow(facts, tokens_name=tokens_name, line_name=line_name)
    base = Path()
    chain = None
    for st in fn.body:
        if isinstance(st, ast.If) and st.orelse:
            chain = st
            break
        if isinstance(st, ast.Assign) and isinstance(st.targets[0], ast.Name):
            base.env[st.targets[0].id] = flow.ev(st.value, base)
    if chain is None:
        raise AnalysisError('anchor vanished: dispatch chain of ' + fn_name)
    arms = []
    cur = chain
    while True:
        arms.append((cur.test, cur.body))
        if len(cur.orelse) == 1 and isinstance(cur.orelse[0], ast.If):
            cur = cur.orelse[0]
        else:
            else_body = cur.orelse
            break
    out = []
    for test, body in arms:
        out.append((arm_key(test), test, flow.run(body, base.clone())))
    return out, flow.run(else_body, base.clone())
