"""Abstract state of the bit-provenance interpreter, the module model it reads constants / tables from, and joins."""
import ast

from .astutil import dotted
from .bitcells import (Unsupported, Param, View, PCell, TOP, merge_pcells, cells_overlap, INF, Maybe)

MUTATORS = {'setdefault', 'update', 'pop', 'popitem', 'clear', '__setitem__', '__delitem__', 'append', 'extend', 'insert',
            'remove', 'sort', 'reverse', 'add', 'discard', 'difference_update', 'intersection_update'}
LOG_METHODS = {'debug', 'info', 'warning', 'warn', 'error', 'critical', 'exception', 'log'}


UNIVERSE = frozenset([frozenset()])


def simplify_region(region):
    region = set(region)
    changed = True
    while changed:
        changed = False
        lst = list(region)
        for i in range(len(lst)):
            for j in range(i + 1, len(lst)):
                a, b = lst[i], lst[j]
                if a <= b or b <= a:
                    region.discard(b if a <= b else a)
                    changed = True
                    break
                d = a ^ b
                if len(d) == 2 and len({x[0] for x in d}) == 1:
                    region.discard(a)
                    region.discard(b)
                    region.add(a & b)
                    changed = True
                    break
            if changed:
                break
    return frozenset(region)


class State:
    def __init__(self):
        self.env = {}
        self.stack = []      # environments of the callers (innermost last)
        self.cells = {}      # src -> [PCell]
        self.lookup = {}     # ('reg', p) -> 'open' | 'hit' | 'miss'   (is the spelling a key of the table?)
        self.heap = {}       # object id -> {attribute: value} of instances that may still change
        self.facts = frozenset()
        self.imprecise = False
        self.dead = False
        # outcomes of conditions the domain cannot attribute to operand values under which this state is reached:
        # a disjunction of conjunctions of (fork id, 'T' | 'F'); {frozenset()} = unconditionally
        self.forks = UNIVERSE

    def clone(self):
        s = State()
        s.env = dict(self.env)
        s.stack = list(self.stack)
        s.cells = {k: [c.copy() for c in v] for k, v in self.cells.items()}
        s.lookup = dict(self.lookup)
        s.heap = {k: dict(v) for k, v in self.heap.items()}
        s.facts = self.facts
        s.imprecise = self.imprecise
        s.dead = self.dead
        s.forks = self.forks
        return s

    def become(self, other):
        self.env, self.stack, self.cells, self.lookup = other.env, other.stack, other.cells, other.lookup
        self.heap = other.heap
        self.facts, self.imprecise, self.dead = other.facts, other.imprecise, other.dead
        self.forks = other.forks

    def cell_key(self, src):
        """canonical form of the value set of an operand (adjustments ignored)"""
        cells = sorted(self.cells.get(src, []), key=lambda c: (c.m, c.r, c.lo))
        out = []
        for c in cells:
            if out and (out[-1][2], out[-1][3]) == (c.m, c.r) and c.lo <= out[-1][1] + c.m:
                out[-1][1] = max(out[-1][1], c.hi)
            else:
                out.append([c.lo, c.hi, c.m, c.r])
        return out


class ModuleModel:
    """What the interpreter may assume about module-level names (computed once per Facts object)."""

    def __init__(self, facts):
        self.facts = facts
        self.bind_count = {}
        self.global_decl = set()
        self.table_sites = {}       # table name -> list of (kind, node) for function-level mutation sites
        self.values = {}            # lazily evaluated module-level names
        self.attr_mutations = set()
        self.attr_store_bases = set()   # module-level names X with `X.attr = ...` somewhere (classes / objects changed at run time)
        self.busy = set()
        self._scan()

    def _scan(self):
        tree = self.facts.tree

        def bind(name):
            self.bind_count[name] = self.bind_count.get(name, 0) + 1

        def targets(t):
            if isinstance(t, ast.Name):
                bind(t.id)
            elif isinstance(t, (ast.Tuple, ast.List)):
                for e in t.elts:
                    targets(e)
            elif isinstance(t, ast.Starred):
                targets(t.value)

        def module_stmts(body):
            for s in body:
                if isinstance(s, (ast.FunctionDef, ast.AsyncFunctionDef, ast.ClassDef)):
                    bind(s.name)
                    continue
                if isinstance(s, ast.Assign):
                    for t in s.targets:
                        targets(t)
                elif isinstance(s, (ast.AugAssign, ast.AnnAssign)):
                    targets(s.target)
                elif isinstance(s, (ast.Import, ast.ImportFrom)):
                    for a in s.names:
                        bind((a.asname or a.name).split('.')[0])
                elif isinstance(s, (ast.For, ast.AsyncFor)):
                    targets(s.target)
                elif isinstance(s, (ast.With, ast.AsyncWith)):
                    for it in s.items:
                        if it.optional_vars is not None:
                            targets(it.optional_vars)
                elif isinstance(s, ast.Delete):
                    for t in s.targets:
                        targets(t)
                for f in ('body', 'orelse', 'finalbody'):
                    sub = getattr(s, f, None)
                    if sub and not isinstance(s, (ast.FunctionDef, ast.ClassDef)):
                        module_stmts(sub)
                for h in getattr(s, 'handlers', []) or []:
                    module_stmts(h.body)
        module_stmts(tree.body)
        # module-level writes to containers other than the `T.update(OTHER)` form the program model folds
        self.module_sites = {}

        modelled = getattr(self.facts, 'modelled_stmts', set())

        def module_effects(body):
            for s in body:
                if isinstance(s, (ast.FunctionDef, ast.AsyncFunctionDef, ast.ClassDef)):
                    continue
                if id(s) in modelled:
                    continue            # a write the program model folded into the table (facts._module_stmt)
                for n in ast.walk(s):
                    if isinstance(n, (ast.FunctionDef, ast.AsyncFunctionDef, ast.Lambda)):
                        continue
                    if isinstance(n, ast.Call) and isinstance(n.func, ast.Attribute) and isinstance(n.func.value, ast.Name) \
                            and n.func.attr in MUTATORS:
                        self.module_sites.setdefault(n.func.value.id, []).append(n)
                    elif isinstance(n, ast.Subscript) and isinstance(n.ctx, (ast.Store, ast.Del)) and isinstance(n.value, ast.Name):
                        self.module_sites.setdefault(n.value.id, []).append(n)
                    elif isinstance(n, ast.AugAssign) and isinstance(n.target, ast.Name):
                        self.module_sites.setdefault(n.target.id, []).append(n)
        module_effects(tree.body)
        for n in ast.walk(tree):
            if isinstance(n, ast.Attribute) and isinstance(n.ctx, (ast.Store, ast.Del)) and isinstance(n.value, ast.Name) \
                    and self.bind_count.get(n.value.id, 0) > 0 and not self._shadowed(n, n.value.id):
                self.attr_store_bases.add(n.value.id)
        # function-level effects on module names
        for fn in ast.walk(tree):
            if not isinstance(fn, (ast.FunctionDef, ast.AsyncFunctionDef, ast.Lambda)):
                continue
            for n in ast.walk(fn):
                if isinstance(n, ast.Global):
                    self.global_decl.update(n.names)
                elif isinstance(n, ast.Call) and isinstance(n.func, ast.Attribute) and isinstance(n.func.value, ast.Name) \
                        and n.func.attr in MUTATORS:
                    self.table_sites.setdefault(n.func.value.id, []).append((n.func.attr, n))
                elif isinstance(n, (ast.Subscript,)) and isinstance(n.ctx, (ast.Store, ast.Del)) and isinstance(n.value, ast.Name):
                    self.table_sites.setdefault(n.value.id, []).append(('store', n))
                # writes through an attribute that may alias a table: <expr>.attr[k] = v, <expr>.attr.update(..)
                if isinstance(n, ast.Call) and isinstance(n.func, ast.Attribute) and n.func.attr in MUTATORS \
                        and isinstance(n.func.value, ast.Attribute):
                    self.attr_mutations.add(n.func.value.attr)
                elif isinstance(n, ast.Subscript) and isinstance(n.ctx, (ast.Store, ast.Del)) and isinstance(n.value, ast.Attribute):
                    self.attr_mutations.add(n.value.attr)

    def written_by_functions(self, name):
        if self.module_sites.get(name) and name not in self.facts.tables and name not in self.facts.sets:
            return True
        return any(not self._shadowed(n, name) for (k, n) in self.table_sites.get(name, []))

    def is_logger(self, name):
        """NAME = logging.getLogger(...) at module level (calls of its methods have no effect on the encoding)"""
        if not self.stable(name):
            return False
        st = self.facts.assign_nodes.get(name)
        return (isinstance(st, ast.Assign) and isinstance(st.value, ast.Call)
                and dotted(st.value.func) in ('logging.getLogger', 'getLogger'))

    def stable(self, name):
        """exactly one module-level binding and never rebound through `global`"""
        return self.bind_count.get(name, 0) == 1 and name not in self.global_decl

    def table_mode(self, name):
        """'closed': never written after module initialisation; 'extended': only `T.setdefault(k, T[...])` sites (existing keys
        keep their values, new keys map to existing values); 'unknown' otherwise."""
        if self.module_sites.get(name):
            return 'unknown'
        sites = [(k, n) for (k, n) in self.table_sites.get(name, []) if not self._shadowed(n, name)]
        if not sites:
            return 'closed'
        for kind, n in sites:
            ok = (kind == 'setdefault' and len(n.args) == 2 and not n.keywords and isinstance(n.args[1], ast.Subscript)
                  and isinstance(n.args[1].value, ast.Name) and n.args[1].value.id == name)
            if not ok:
                return 'unknown'
        return 'extended'

    def _shadowed(self, node, name):
        """the mutated name is a local of the enclosing function (parameter or assigned there), not the module table"""
        p = getattr(node, '_parent', None)
        while p is not None and not isinstance(p, (ast.FunctionDef, ast.AsyncFunctionDef, ast.Lambda)):
            p = getattr(p, '_parent', None)
        if p is None:
            return False
        a = p.args
        params = [x.arg for x in a.args + a.kwonlyargs + getattr(a, 'posonlyargs', [])]
        if a.vararg:
            params.append(a.vararg.arg)
        if a.kwarg:
            params.append(a.kwarg.arg)
        if name in params:
            return True
        if isinstance(p, ast.Lambda):
            return False
        declared_global = any(isinstance(n, ast.Global) and name in n.names for n in ast.walk(p))
        if declared_global:
            return False
        for n in ast.walk(p):
            if isinstance(n, ast.Name) and n.id == name and isinstance(n.ctx, ast.Store):
                return True
        return False


def model_of(facts):
    mm = getattr(facts, '_bitdom_model', None)
    if mm is None:
        mm = ModuleModel(facts)
        facts._bitdom_model = mm
    return mm


# ---------------------------------------------------------------------------------------------------------------
class Joiner:
    """join of two states at a control-flow merge (needs the interpreter's channel counter)"""

    def fork(self, st):
        """both outcomes of a condition that says nothing about operand values"""
        self.nfork += 1
        t, f = st, st.clone()
        t.forks = frozenset(c | {(self.nfork, 'T')} for c in st.forks)
        f.forks = frozenset(c | {(self.nfork, 'F')} for c in f.forks)
        return t, f

    def new_channel(self):
        self.nch += 1
        return self.nch

    def join(self, a, b):
        out = State()
        out.imprecise = a.imprecise or b.imprecise
        out.facts = a.facts & b.facts
        out.stack = a.stack
        # operands seen on one side only: the other side has not constrained them
        for src in set(a.cells) | set(b.cells):
            for s in (a, b):
                if src not in s.cells:
                    if src[0] != 'imm':
                        raise Unsupported('operand {} interpreted on one branch only'.format(src))
                    s.cells[src] = [PCell(-INF, INF)]
        # variables
        for k in set(a.env) | set(b.env):
            va, vb = a.env.get(k, TOP), b.env.get(k, TOP)
            if isinstance(va, Param) and isinstance(vb, View) and vb.src == ('imm', va.name):
                va = View(vb.src)
            if isinstance(vb, Param) and isinstance(va, View) and va.src == ('imm', vb.name):
                vb = View(va.src)
            out.env[k] = self.join_value(va, vb, a, b)
        # instances
        for oid in set(a.heap) | set(b.heap):
            ha, hb = a.heap.get(oid), b.heap.get(oid)
            if ha is None or hb is None:
                out.heap[oid] = dict(ha if hb is None else hb)
                continue
            out.heap[oid] = {k: self.join_value(ha.get(k, TOP), hb.get(k, TOP), a, b) for k in set(ha) | set(hb)}
        # lookups
        for src in set(a.lookup) | set(b.lookup):
            la, lb = a.lookup.get(src), b.lookup.get(src)
            out.lookup[src] = la if la == lb else 'open'
        # cells
        differing = 0
        for src in set(a.cells) | set(b.cells):
            ca, cb = a.cells[src], b.cells[src]
            if a.lookup.get(src) == 'miss' and b.lookup.get(src) != 'miss':
                out.cells[src] = [c.copy() for c in cb]
                continue
            if b.lookup.get(src) == 'miss' and a.lookup.get(src) != 'miss':
                out.cells[src] = [c.copy() for c in ca]
                continue
            if a.cell_key(src) != b.cell_key(src):
                differing += 1
            out.cells[src] = self.union_cells(src, ca, cb)
        # forks on conditions that are not about operand values: harmless when both sides arrive with the same value sets
        if a.forks == b.forks:
            out.forks = a.forks
        else:
            same = all(a.cell_key(src) == b.cell_key(src) for src in set(a.cells) | set(b.cells)) and all(
                a.lookup.get(src) == b.lookup.get(src) for src in set(a.lookup) | set(b.lookup))
            if not same:
                out.imprecise = True
            out.forks = simplify_region(a.forks | b.forks)
        if differing > 1:
            # the two sides constrain several operands jointly: the union of two products is over-approximated by a product
            out.imprecise = True
        return out

    def join_value(self, va, vb, a, b):
        if va is vb:
            return va
        try:
            if type(va) == type(vb) and va == vb:
                return va
        except Exception:
            pass
        if isinstance(va, View) and isinstance(vb, View) and va.src == vb.src and va.shift == vb.shift and va.trunc == vb.trunc:
            c = self.new_channel()
            for cell in a.cells[va.src]:
                cell.d[c] = cell.off(va.ch, va.add)
            for cell in b.cells[vb.src]:
                cell.d[c] = cell.off(vb.ch, vb.add)
            return View(va.src, c, 0, va.shift, va.trunc)
        # a table value on the path where the spelling is a key, a constant on the path where it is not: TABLE.get(k, const)
        for x, y, sx, sy in ((va, vb, a, b), (vb, va, b, a)):
            if isinstance(x, View) and x.src[0] == 'reg' and (y is None or (isinstance(y, int) and not isinstance(y, bool))) \
                    and sx.lookup.get(x.src) == 'hit' and sy.lookup.get(x.src) == 'miss' and x.key()[1:] == (0, 0, 0, None):
                return Maybe(x, y)
            # ... or the raw operand itself where the lookup was skipped (except KeyError: pass)
            if isinstance(x, View) and x.src[0] == 'reg' and isinstance(y, Param) and y.name == x.src[1] \
                    and sx.lookup.get(x.src) == 'hit' and sy.lookup.get(x.src) == 'miss' and x.key()[1:] == (0, 0, 0, None):
                return Maybe(x, y)
        if isinstance(va, list) and isinstance(vb, list) and len(va) == len(vb):
            return [self.join_value(x, y, a, b) for x, y in zip(va, vb)]
        return TOP

    def union_cells(self, src, ca, cb):
        """set union of two families of cells; where both cover a value their adjustment channels must agree"""
        classes = {}
        for c in list(ca) + list(cb):
            classes.setdefault((c.m, c.r), []).append(c)
        keys = list(classes)
        for i in range(len(keys)):
            for j in range(i + 1, len(keys)):
                if any(cells_overlap(a, b) for a in classes[keys[i]] for b in classes[keys[j]]):
                    raise Unsupported('operand {}: overlapping value sets with different divisibility reach a merge'.format(src))
        out = []
        for (m, r), cs in classes.items():
            pts = sorted({c.lo for c in cs} | {c.hi + 1 for c in cs})
            for lo, nxt in zip(pts, pts[1:]):
                hi = nxt - 1
                d = None
                for c in cs:
                    if c.lo <= lo and hi <= c.hi:
                        if d is None:
                            d = dict(c.d)
                            continue
                        for k, v in c.d.items():
                            if k in d and d[k] != v:
                                raise Unsupported('operand {}: the same values reach a merge with different adjustments'.format(src))
                            d[k] = v
                if d is None:
                    continue
                seg = PCell(lo, hi, m, r, d).sub(lo, hi)
                if seg is not None:
                    out.append(seg)
        return merge_pcells(out)
