#!/venv/bin/python
"""Evaluate delivered small behaviour-preserving edits (developer tool, not a registered check).

  tools/micro_eval.py /tmp/r4/Z01/deliver [--keep PREFIX]

For every e<k>.diff in the directory: apply it to a scratch copy of /repo (never /repo itself), run the test suite there, run all 20
checks with --repo <copy>, print which give exit 1 (false alarm) / exit 2 (no verdict).  With --keep PREFIX an edit whose suite passes
is stored as preserving/micro/<PREFIX>-e<k>/patch.diff (tools/corpus.py scans preserving/micro as well).
"""
import argparse
import concurrent.futures
import glob
import os
import shutil
import subprocess
import sys
import tempfile

VERIF = os.path.dirname(os.path.dirname(os.path.abspath(__file__)))
PY = '/venv/bin/python'
PROPS = ['C%02d' % i for i in range(1, 21)]


def sh(cmd, cwd=None, timeout=900):
    try:
        r = subprocess.run(cmd, shell=True, cwd=cwd, capture_output=True, text=True, timeout=timeout)
        return r.returncode, r.stdout + r.stderr
    except subprocess.TimeoutExpired:
        return 124, 'timeout'


def one(diff, repo):
    d = tempfile.mkdtemp(prefix='bbverif-micro-')
    try:
        for sub in ('bronzebeard', 'docs', 'tests', 'examples'):
            if os.path.isdir(os.path.join(repo, sub)):
                shutil.copytree(os.path.join(repo, sub), os.path.join(d, sub), ignore=shutil.ignore_patterns('__pycache__'))
        rc, out = sh('git apply {}'.format(diff), cwd=d)
        if rc != 0:
            return diff, 'patch does not apply', {}, {}
        rc_t, out_t = sh('{} -m pytest -q -p no:cacheprovider -x 2>&1 | tail -2'.format(PY), cwd=d)
        tests_ok = ' passed' in out_t and 'failed' not in out_t
        res, msg = {}, {}
        for p in PROPS:
            rc, out = sh('{} {}/bbverif/check.py {} --repo {} --no-evidence'.format(PY, VERIF, p, d))
            res[p] = rc
            if rc != 0:
                lines = [l.strip() for l in out.splitlines() if l.strip().startswith('finding') or l.startswith('ANALYSIS-ERROR')]
                msg[p] = lines[0][:260] if lines else ''
        return diff, 'tests pass' if tests_ok else 'TESTS FAIL: ' + out_t.strip()[-80:], res, msg
    finally:
        shutil.rmtree(d, ignore_errors=True)


def main():
    ap = argparse.ArgumentParser()
    ap.add_argument('dirs', nargs='+')
    ap.add_argument('--repo', default='/repo')
    ap.add_argument('--keep')
    ap.add_argument('-q', action='store_true')
    args = ap.parse_args()
    diffs = []
    for d in args.dirs:
        diffs.extend(sorted(glob.glob(os.path.join(d, 'e*.diff'))))
    bad = 0
    with concurrent.futures.ThreadPoolExecutor(max_workers=6) as ex:
        for diff, status, res, msg in ex.map(lambda x: one(x, args.repo), diffs):
            alarms = [p for p, c in res.items() if c == 1]
            und = [p for p, c in res.items() if c == 2]
            tag = os.path.basename(os.path.dirname(os.path.dirname(diff))) + '/' + os.path.basename(diff)
            print('{:16} {:12} false alarms: {}  undecided: {}'.format(tag, status[:40], ','.join(alarms) or '-', ','.join(und) or '-'))
            if not args.q:
                for p in alarms + und:
                    print('      {} {}'.format(p, msg.get(p, '')))
            bad += len(alarms)
            if args.keep and status == 'tests pass':
                name = '{}-{}'.format(args.keep if len(args.dirs) == 1 else os.path.basename(os.path.dirname(os.path.dirname(diff))),
                                      os.path.basename(diff)[:-5])
                dest = os.path.join(VERIF, 'preserving', 'micro', name)
                os.makedirs(dest, exist_ok=True)
                shutil.copy(diff, os.path.join(dest, 'patch.diff'))
    return 1 if bad else 0


if __name__ == '__main__':
    sys.exit(main())
