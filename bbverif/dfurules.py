"""Host-side DFU protocol rules over the paths of dfu.cli_main and the request helpers (C18, C19)."""
import ast

from .core import AnalysisError, Finding
from .astutil import unparse, dotted, fold, NotConstant
from .pathwalk import Walker, PathState, show, is_const, C
from .poly import Poly, to_poly, normalise_gt
from . import oracle
from .immsites import contains, find_all

DFU = 'bronzebeard/dfu.py'


def strip(v):
    while isinstance(v, tuple) and v and v[0] == 'res':
        v = v[3]
    return v


class Helpers:
    """Request helpers classified by what they send."""

    def __init__(self, facts):
        self.facts = facts
        self.kind = {}       # function name -> 'POLL' | 'CLR' | 'ERASE' | 'SETADDR' | 'DATA' | 'DNLOAD?'
        self.calls = {}      # function name -> ctrl_transfer Call node
        self.detail = {}
        for name, fn in facts.funcs.items():
            for n in ast.walk(fn):
                if isinstance(n, ast.Call) and isinstance(n.func, ast.Attribute) and n.func.attr == 'ctrl_transfer':
                    self.calls[name] = n
                    self.classify(name, fn, n)

    def arg(self, call, idx, kw):
        if idx < len(call.args):
            return call.args[idx]
        for k in call.keywords:
            if k.arg == kw:
                return k.value
        return None

    def classify(self, name, fn, call):
        consts = self.facts.consts
        req = self.arg(call, 1, 'bRequest')
        rt = self.arg(call, 0, 'bmRequestType')
        wvalue = self.arg(call, 2, 'wValue')
        data = self.arg(call, 4, 'data_or_wLength')
        d = {'request_name': unparse(req) if req is not None else None}
        try:
            d['request'] = fold(req, consts)
        except (NotConstant, TypeError):
            d['request'] = None
        try:
            d['bmRequestType'] = fold(rt, consts)
        except (NotConstant, TypeError):
            d['bmRequestType'] = None
        try:
            d['wValue'] = fold(wvalue, consts) if wvalue is not None else 0
        except NotConstant:
            d['wValue'] = None
        try:
            d['data_const'] = fold(data, consts) if data is not None else None
        except NotConstant:
            d['data_const'] = None
        d['data'] = unparse(data) if data is not None else None
        # payload built by struct.pack(fmt, CMD, address)?
        d['pack'] = None
        if isinstance(data, ast.Name):
            for n in ast.walk(fn):
                if isinstance(n, ast.Assign) and isinstance(n.targets[0], ast.Name) and n.targets[0].id == data.id \
                        and isinstance(n.value, ast.Call) and dotted(n.value.func) == 'struct.pack':
                    args = n.value.args
                    try:
                        d['pack'] = (fold(args[0], consts), unparse(args[1]), fold(args[1], consts), [unparse(a) for a in args[2:]])
                    except (NotConstant, IndexError):
                        d['pack'] = ('?', None, None, [])
        self.detail[name] = d
        R = oracle.DFU['requests']
        if d['request'] == R['REQUEST_DFU_GETSTATUS']:
            self.kind[name] = 'POLL'
        elif d['request'] == R['REQUEST_DFU_CLRSTATUS']:
            self.kind[name] = 'CLR'
        elif d['request'] == R['REQUEST_DFU_DNLOAD']:
            if d['pack'] is not None:
                cmd = d['pack'][2]
                if cmd == oracle.DFU['dfuse']['DFUSE_CMD_ERASE_PAGE']:
                    self.kind[name] = 'ERASE'
                elif cmd == oracle.DFU['dfuse']['DFUSE_CMD_SET_ADDRESS']:
                    self.kind[name] = 'SETADDR'
                else:
                    self.kind[name] = 'DNLOAD?'
            else:
                self.kind[name] = 'DATA'
        else:
            self.kind[name] = 'OTHER'


def main_paths(facts):
    fn = facts.funcs.get('cli_main')
    if fn is None:
        raise AnalysisError('anchor vanished: dfu.cli_main')
    w = Walker(facts, name_results=True)
    return fn, w.run(fn.body, PathState())


def protocol_events(path, helpers):
    """Ordered protocol-level events of a path: (kind, index in events, node, args)."""
    out = []
    for i, ev in enumerate(path.events):
        v = None
        if ev[0] in ('value', 'expr'):
            v = strip(ev[1])
            node = ev[2]
        if v is not None and v[0] == 'call' and v[1] in helpers.kind:
            out.append((helpers.kind[v[1]], i, node, v[2], v[1], ev[1]))
        elif ev[0] == 'cond':
            out.append(('COND', i, ev[3], (ev[1], ev[2]), None, None))
        elif ev[0] in ('while', 'endwhile', 'endwhile0', 'loop', 'loop0', 'endloop'):
            out.append((ev[0].upper(), i, ev[2], ev[1], None, None))
        elif ev[0] == 'raise':
            out.append(('RAISE', i, ev[2], ev[1], None, None))
        elif ev[0] == 'expr' and v is not None and v[0] == 'call' and v[1] in ('sys.exit', 'exit', 'quit'):
            out.append(('EXIT', i, node, v[2], None, None))
    return out


def is_size_guard(test, rename):
    """P > 0 polynomial of a test, if it compares integers."""
    return normalise_gt(test, rename)


def rename_cli(v):
    """Canonical names for the quantities the formulas talk about."""
    v0 = strip(v)
    if isinstance(v, tuple) and v and v[0] == 'res':
        return ('sym', v[1])
    return v


def status_vars(fn, helpers):
    """Names bound to the first element of a POLL helper's result anywhere in the function."""
    out = set()
    for n in ast.walk(fn):
        if isinstance(n, ast.Assign) and isinstance(n.value, ast.Call) and isinstance(n.value.func, ast.Name) \
                and helpers.kind.get(n.value.func.id) == 'POLL' and isinstance(n.targets[0], ast.Tuple) and n.targets[0].elts \
                and isinstance(n.targets[0].elts[0], ast.Name):
            out.add(n.targets[0].elts[0].id)
    return out


def is_status_value(x, helpers, svars):
    if x[0] == 'havoc' and x[1] in svars:
        return True
    if x[0] == 'unpack' and x[2] == '0':
        src = strip(x[1])
        return src[0] == 'call' and helpers.kind.get(src[1]) == 'POLL'
    return False


def status_test(test, consts, helpers=None, svars=()):
    """('bad'|'ok', status symbol) if the test compares a polled status with STATUS_OK (by name, or by value when the other
    side is a polled status)."""
    if test[0] == 'un' and test[1] == 'not':
        r = status_test(test[2], consts, helpers, svars)
        if r:
            return ('ok' if r[0] == 'bad' else 'bad', r[1])
        return None
    if test[0] != 'cmp' or test[1] not in ('!=', '==', 'is not', 'is'):
        return None
    a, b = test[2], test[3]
    ok_val = consts.get('STATUS_OK')
    for x, y in ((a, b), (b, a)):
        if y == ('name', 'STATUS_OK') or (is_const(y) and ok_val is not None and y[1] == ok_val and not is_const(x)
                                          and helpers is not None and is_status_value(x, helpers, svars)):
            return ('bad' if test[1] in ('!=', 'is not') else 'ok', x)
    return None
