"""C06 - unrepresentable operands are rejected, never truncated; legal ones accepted."""
from ..core import Report, Finding
from ..facts import Facts
from .. import oracle, encprops
from ..encsum import all_summaries

LEVEL = 'proof'


def run(repo, tier):
    facts = Facts(repo.asm)
    rep = Report('C06', LEVEL,
                 'For every operand of every one of the 93 bindings the accepted set derived by abstract interpretation '
                 '(partition of intervals x congruences, alias windows, constraint closures) is compared, both inclusions, with the '
                 'legal set of the ISA tables; the structural rule mask-after-guard names the construct: every mask applied to an '
                 'operand-derived value must be dominated by a range guard whose interval fits the masked width.')
    rep.trusted_base = ['CPython ast', 'bbverif.bitdom transfer functions', 'bbverif.oracle operand ranges (from the ISA manual)']
    rep.not_decided = ['acceptance through the text front end of operands that are expressions (C11)']
    m32 = encprops.check_tables(rep, facts, 'R6.tables', oracle.RV32, compressed=False)
    m16 = encprops.check_tables(rep, facts, 'R6.tables', oracle.RVC, compressed=True)
    encprops.check_acceptance(rep, facts, m32 + m16, 'R6.accepted-set')
    encprops.check_mask_guard(rep, facts, m32 + m16, 'R6.mask-after-guard')
    # refusal is a raise on a path that never reaches the return: true by construction of the interpreter (a raise
    # kills the abstract path); count the refusal sites that were seen
    sums = all_summaries(facts)
    sites = set()
    for m in m32 + m16:
        for r in sums[m].raises:
            sites.add((r['fn'], r['node'].lineno))
    rep.analysed['refusal sites reached'] = len(sites)
    encprops.check_registers(rep, facts, 'R6.registers')
    rep.floor('mnemonic bindings', 93)
    rep.floor('refusal sites reached', 30)
    return rep
