#!/venv/bin/python
"""Developer self-test of the checkers (not a registered check): every `breaking` variant must make its property's
check report a VIOLATION, every `preserving` variant must leave all listed checks at exit 0.

Variants live in /verif/bbverif/variants.py as (id, props, file, old, new[, nth]) text edits applied to a scratch
copy of the analysed sources under $(mktemp -d); the copy is removed immediately afterwards.
"""
import argparse
import concurrent.futures
import io
import os
import py_compile
import shutil
import subprocess
import sys
import tempfile

sys.path.insert(0, os.path.dirname(os.path.dirname(os.path.abspath(__file__))))

from bbverif import variants  # noqa: E402

CHECK = os.path.join(os.path.dirname(os.path.abspath(__file__)), 'check.py')
ALL_PROPS = ['C%02d' % i for i in range(1, 21)]


def make_copy(repo):
    d = tempfile.mkdtemp(prefix='bbverif-selftest-')
    shutil.copytree(os.path.join(repo, 'bronzebeard'), os.path.join(d, 'bronzebeard'),
                    ignore=shutil.ignore_patterns('__pycache__', 'libs', 'definitions'))
    shutil.copytree(os.path.join(repo, 'docs'), os.path.join(d, 'docs'))
    return d


def apply_edit(root, rel, old, new, nth=None):
    p = os.path.join(root, rel)
    with open(p) as f:
        s = f.read()
    n = s.count(old)
    if n == 0:
        raise RuntimeError('edit anchor not found in {}: {!r}'.format(rel, old))
    if nth is None:
        if n != 1:
            raise RuntimeError('edit anchor ambiguous ({}x) in {}: {!r}'.format(n, rel, old))
        s = s.replace(old, new)
    elif nth == 'all':
        s = s.replace(old, new)
    else:
        idx = -1
        for _ in range(nth + 1):
            idx = s.index(old, idx + 1)
        s = s[:idx] + new + s[idx + len(old):]
    with open(p, 'w') as f:
        f.write(s)
    if rel.endswith('.py'):
        py_compile.compile(p, cfile=os.path.join(root, '.pyc-check'), doraise=True)


def run_variant(v, repo, available):
    vid, props, edits, kind = v
    d = make_copy(repo)
    try:
        for e in edits:
            apply_edit(d, *e)
        results = {}
        targets = props if kind in ('breaking', 'undecided') else [p for p in (props or ALL_PROPS)]
        for p in targets:
            if p not in available:
                continue
            r = subprocess.run([sys.executable, CHECK, p, '--repo', d, '--no-evidence'], capture_output=True, text=True)
            results[p] = (r.returncode, r.stdout[-1500:])
        return vid, kind, results, None
    except Exception as e:  # noqa
        return vid, kind, {}, repr(e)
    finally:
        shutil.rmtree(d, ignore_errors=True)


def main():
    ap = argparse.ArgumentParser()
    ap.add_argument('--repo', default='/repo')
    ap.add_argument('--only', help='comma separated variant ids or property ids')
    ap.add_argument('-v', action='store_true')
    args = ap.parse_args()
    available = {f[:-3].upper() for f in os.listdir(os.path.join(os.path.dirname(CHECK), 'props')) if f.startswith('c') and f.endswith('.py')}
    vs = []
    for (vid, props, edits) in variants.BREAKING:
        vs.append((vid, props, edits, 'breaking'))
    for (vid, props, edits) in variants.PRESERVING:
        vs.append((vid, props, edits, 'preserving'))
    for (vid, props, edits) in getattr(variants, 'UNDECIDED', []):
        vs.append((vid, props, edits, 'undecided'))
    if args.only:
        sel = set(args.only.split(','))
        vs = [v for v in vs if v[0] in sel or (set(v[1] or []) & sel)]
    bad = 0
    with concurrent.futures.ThreadPoolExecutor(max_workers=16) as ex:
        for vid, kind, results, err in ex.map(lambda v: run_variant(v, args.repo, available), vs):
            if err:
                print('ERROR   {:40s} {}'.format(vid, err))
                bad += 1
                continue
            for p, (code, out) in sorted(results.items()):
                want = {'breaking': 1, 'preserving': 0, 'undecided': 2}[kind]
                status = 'ok' if code == want else 'WRONG'
                if code != want:
                    bad += 1
                if args.v or code != want:
                    print('{:7s} {:10s} {:44s} {} exit={} (want {})'.format(status, kind, vid, p, code, want))
                    if code != want:
                        print('        ' + out.strip().replace('\n', '\n        ')[-1200:])
            if not results:
                print('SKIP    {:40s} (no checker yet for {})'.format(vid, props))
    print('variants: {}  wrong: {}'.format(len(vs), bad))
    return 1 if bad else 0


if __name__ == '__main__':
    sys.exit(main())
