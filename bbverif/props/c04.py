"""C04 - enabling compression never changes what the program means."""
import ast

from ..core import Report, Finding, AnalysisError
from ..facts import Facts
from ..astutil import unparse
from ..pathwalk import show, is_const, C
from .. import layoutrules as LR, immsites as IS, oracle, encprops
from ..encsum import all_summaries, derived_operand, canon, show_cells
from ..comprel import CompRel, effect, accepted, encode_closed_form, decode_rvc, expand
from ..layout import pipeline

LEVEL = 'other'


def operand_value(prov, tup, item):
    """Concrete value of a constructor argument for a concrete original tuple; (value, note)."""
    if is_const(prov):
        return prov[1], 'const'
    if prov[0] == 'attr' and prov[1] == item:
        return tup.get(prov[2]), 'field'
    if prov[0] == 'new' and prov[1] == 'Arithmetic' and len(prov[2]) == 1:
        inner = prov[2][0]
        # Arithmetic(<text of a register-kinded field>): its numeric reading for literal spellings
        for _ in range(4):
            if inner[0] == 'call' and inner[1] in ('str', 'lookup_register') and len(inner[2]) == 1:
                inner = inner[2][0]
            elif inner[0] == 'mcall' and inner[2] == 'format' and inner[1] in (C('{}'), C('{:d}'), C('{0}')) and len(inner[3]) == 1 and not inner[4]:
                inner = inner[3][0]          # '{}'.format(n): the decimal text of n, like str(n)
            elif inner[0] == 'bin' and inner[1] == '%' and inner[2] in (C('%d'), C('%s'), C('%i')) and inner[3][0] != 'tuple':
                inner = inner[3]             # '%d' % n
        if inner[0] == 'attr' and inner[1] == item:
            return tup.get(inner[2]), 'arith-of-field'
    return None, 'unknown'


def orig_roles(rel, facts, name, tup):
    """Original field tuple keyed by the ISA roles of mnemonic `name`."""
    spec = oracle.RV32.get(name)
    cls, attrs = rel.item_fields(name)
    args_attrs = facts.args_attrs(cls) if cls else None
    if args_attrs is None:
        raise AnalysisError('{}: which attributes args() of {} returns is not understood'.format(name, cls))
    out = {}
    if spec is None:
        return out
    if args_attrs is None or len(args_attrs) != len(spec['operands']):
        raise AnalysisError('{}: which attributes args() of {} hands to the encoder is not understood (the operands of the original instruction cannot be named)'.format(name, cls))
    for op, attr in zip(spec['operands'], args_attrs):
        out[op['role']] = tup.get(attr)
    return out


def norm_effect(mn, f):
    f = dict(f)
    if mn in ('lui', 'auipc') and f.get('imm') is not None:
        f['imm'] = f['imm'] & 0xfffff
    return effect(mn, f)


def check_rules(rep, facts, rel, rule_sem, rule_acc, tier, only_names=None):
    sums = all_summaries(facts)
    item = rel.pa.item
    total = 0
    for ru in rel.rules:
        if only_names is not None and ru.name not in only_names:
            continue
        con = rel.constructions.get(ru.key)
        if con is None:
            rep.fail(Finding(rule_sem, 'transform_compressible', 'rule ' + ru.key, 'criteria rule {!r} has no construction arm'.format(ru.key),
                             line=rel.pa.fn.lineno))
            continue
        if ru.name is None and only_names is None:
            from ..comprel import terms_of
            terms = [t for f in ru.formulas for t in terms_of(f)]
            if not any(t[0] == 'NAME' for t in terms):
                # nothing in the rule looks at what the instruction is: it fires for every mnemonic with such operands
                rep.fail(Finding(rule_sem, 'transform_compressible', con.node,
                                 'rule {!r} does not test the mnemonic at all: every instruction whose operands pass its register / immediate tests is replaced by {}'.format(
                                     ru.key, con.mnemonic), line=con.node.lineno), instance=ru.key + ' meaning')
                continue
        cm = con.mnemonic
        if cm is None:
            rep.undecided('rule {!r}: the mnemonic handed to {} ({}) is not a constant the analysis can read'.format(ru.key, con.cls, show(con.fields.get('name'))[:60]))
            continue
        if cm not in oracle.RVC or cm not in sums:
            rep.fail(Finding(rule_sem, 'transform_compressible', con.node, 'rule {!r} builds {!r}, which is not an RV32C mnemonic'.format(ru.key, cm), line=con.node.lineno))
            continue
        s = sums[cm]
        args_attrs = facts.args_attrs(con.cls)
        if args_attrs is None:
            rep.undecided('rule {!r}: which attributes args() of {} returns is not understood'.format(ru.key, con.cls))
            continue
        attr_src = {a: src for a, src in facts.full_attr_order(con.cls)}
        if len(args_attrs) != len(s.params):
            rep.fail(Finding(rule_sem, 'transform_compressible', con.node, 'rule {!r}: class {} yields {} operands, encoder of {} takes {}'.format(
                ru.key, con.cls, len(args_attrs), cm, len(s.params)), line=con.node.lineno))
            continue
        cells = {}
        for p in s.params:
            info = derived_operand(s, p)
            cells[p] = canon(info['cells']) if info else []
        n = 0
        bad_acc = None
        bad_sem = None
        unknown = None
        modes = ['literal'] + (['offset'] if oracle.RV32_FORMAT.get(ru.name) in ('J', 'B') else [])
        region = (t for mode in modes for t in rel.region_tuples(ru, mode))
        while True:
            # a rule whose region cannot be enumerated is no verdict about that rule; the other rules are still judged
            try:
                tup = next(region)
            except StopIteration:
                break
            except AnalysisError as e:
                rep.undecided(str(e))
                unknown = ('<region>', None)
                n = -1
                break
            n += 1
            ops = {}
            for p, attr in zip(s.params, args_attrs):
                prov = con.fields.get(attr_src.get(attr))
                v, note = operand_value(prov, tup, item) if prov is not None else (None, 'missing')
                if v is None:
                    unknown = (p, prov)
                    break
                ops[p] = v
            if unknown:
                break
            ok = all(accepted(cells[p], ops[p]) for p in s.params)
            if not ok:
                bad_acc = bad_acc or (tup, ops)
                continue
            word = encode_closed_form(s, ops)
            dec = oracle.rvc_decode(word)
            if dec is None:
                bad_sem = bad_sem or (tup, ops, 'halfword 0x{:04x} is not a legal RV32C integer encoding'.format(word))
                continue
            base, fields = expand(dec, decode_rvc(dec, word))
            want = norm_effect(ru.name, orig_roles(rel, facts, ru.name, tup))
            got = norm_effect(base, fields)
            if want != got:
                bad_sem = bad_sem or (tup, ops, '0x{:04x} = {} {} means {} {}, the original is {} {}'.format(
                    word, dec, decode_rvc(dec, word), base, fields, ru.name, {k: v for k, v in tup.items() if k != 'name'}))
        if n < 0:
            continue
        total += n
        if unknown:
            prov = unknown[1]
            cls_, attrs_ = rel.item_fields(ru.name)
            if prov is not None and prov[0] == 'attr' and prov[1] == item and prov[2] not in (attrs_ or []):
                rep.fail(Finding(rule_acc, 'transform_compressible', con.node,
                                 'rule {!r} builds operand {} from item.{}, a field {} items do not have (AttributeError with -c)'.format(
                                     ru.key, unknown[0], prov[2], cls_), line=con.node.lineno), instance=ru.key + ' missing field')
                continue
            rep.undecided('rule {!r}: constructor argument {} = {} has no numeric reading in the relation fragment'.format(ru.key, unknown[0], show(unknown[1])))
            continue
        if n == 0 and getattr(ru, 'imm_domain_is_fallback', False):
            rep.undecided('rule {!r}: the bounds of its immediate test are not read off the formulas ({}), so its region cannot be enumerated'.format(
                ru.key, '; '.join(str(f) for f in ru.enum_formulas())[:200]))
            continue
        if n == 0:
            rep.fail(Finding(rule_sem, 'transform_compressible', con.node, 'rule {!r} can never fire (empty region or shadowed by earlier rules)'.format(ru.key), line=con.node.lineno),
                     instance=ru.key + ' empty')
            continue
        if bad_acc:
            tup, ops = bad_acc
            rep.fail(Finding(rule_acc, 'transform_compressible', con.node,
                             'rule {!r} fires on {} {} and builds {} {}, which the encoder of {} refuses (accepted: {})'.format(
                                 ru.key, ru.name, {k: v for k, v in tup.items() if k != 'name'}, cm, ops, cm,
                                 {p: show_cells(c) for p, c in cells.items()}), line=con.node.lineno), instance=ru.key + ' region within accepted set')
        else:
            rep.ok(rule_acc, '{}: all {} tuples of the region are accepted by the encoder of {}'.format(ru.key, n, cm))
        if bad_sem:
            tup, ops, why = bad_sem
            rep.fail(Finding(rule_sem, 'transform_compressible', con.node,
                             'rule {!r} changes the meaning: {} {} -> {} {}: {}'.format(ru.key, ru.name, {k: v for k, v in tup.items() if k != 'name'}, cm, ops, why),
                             line=con.node.lineno), instance=ru.key + ' meaning')
        elif not bad_acc:
            rep.ok(rule_sem, '{}: expansion of the emitted halfword == original instruction on all {} tuples'.format(ru.key, n))
            rep.sample({'rule': ru.key, 'original': ru.name, 'compressed': cm, 'tuples': n,
                        'construction': {a: show(con.fields.get(attr_src.get(a))) for a in args_attrs}})
    rep.analysed['region tuples enumerated'] = total


def check_structure(rep, facts, rel, rule):
    # exhaustiveness: every criteria key has exactly one construction arm; the 'bad logic' raise is dead
    for key, r in rel.unbuilt:
        node = r['path'].end_node or rel.pa.loop
        rep.fail(Finding(rule + '.dispatch', 'transform_compressible', node, 'criteria key {!r} falls through the construction chain'.format(key), line=getattr(node, 'lineno', None)),
                 instance='dispatch ' + key)
    rep.check(len({ru.key for ru in rel.rules}) == len(rel.constructions) + len(rel.unbuilt) and len(rel.rules) > 0, rule + '.dispatch',
              '{} criteria keys == construction arms'.format(len(rel.rules)),
              lambda: Finding(rule + '.dispatch', 'transform_compressible', 'criteria', 'criteria keys and construction arms differ', line=rel.pa.fn.lineno))
    # name / class consistency of the compressed constructions
    cls_tables, _ = encprops.class_tables(facts)
    tables = facts.instruction_tables()
    for key, con in rel.constructions.items():
        names = set()
        for t in cls_tables.get(con.cls, ()):
            names |= set(tables.get(t, {}))
        line = con.fields.get('line')
        rep.check(line == ('attr', rel.pa.item, 'line'), rule + '.line', '{}: keeps the source line of the replaced instruction'.format(key),
                  lambda con=con: Finding(rule + '.line', 'transform_compressible', con.node, 'the compressed item does not carry the source line of the instruction it replaces', line=con.node.lineno),
                  nontrivial=False)
        if not names:
            rep.undecided('{}: no mnemonic table is attributed to the class {} by parse_item (which lines build it is not understood)'.format(key, con.cls))
            continue
        if con.mnemonic is None:
            rep.undecided('{}: the mnemonic handed to {} ({}) is not a constant the analysis can read'.format(key, con.cls, show(con.fields.get('name'))[:60]))
            continue
        rep.check(con.mnemonic in names, rule + '.class', '{}: {} is a mnemonic of {}'.format(key, con.mnemonic, con.cls),
                  lambda con=con, names=names: Finding(rule + '.class', 'transform_compressible', con.node,
                                                       '{} is built with mnemonic {!r}, which is not one of its own ({}): size() and args() would not match the encoder'.format(
                                                           con.cls, con.mnemonic, sorted(names)), line=con.node.lineno))
    # identity paths
    for r in rel.pa.rows:
        if r['crit'] is None and r['path'].end != 'raise':
            vals = [v for v, n in r['app_values']]
            matched_none = any(ev[0] == 'matched' and ev[1] == C(None) for ev in r['path'].events)
            rep.check(vals == [rel.pa.item], rule + '.identity', 'path [{}]: item passed through unchanged'.format(r['path'].cond_text()[-60:] or 'no rule matched'),
                      lambda r=r: Finding(rule + '.identity', 'transform_compressible', r['path'].end_node or rel.pa.loop,
                                          'an item that is not replaced is not passed through unchanged', line=rel.pa.loop.lineno))


def check_rounds(rep, facts, rule):
    """R4.6: under compress, a compression round follows the pseudo expansion and a register-alias resolution precedes each round."""
    rows = pipeline(facts)
    order = [(n, g) for n, g, node, a, t in rows]

    def is_pass(row, fname):
        # a pass reached through thin wrappers is listed under the outermost wrapper's name: the function finally called counts
        call = row[4]
        return row[0] == fname or (call is not None and call.named(fname))
    comp_idx = [i for i, r in enumerate(rows) if is_pass(r, 'transform_compressible')]
    pseudo_idx = [i for i, r in enumerate(rows) if is_pass(r, 'transform_pseudo_instructions')]
    alias_idx = [i for i, r in enumerate(rows) if is_pass(r, 'resolve_register_aliases')]
    for fname, idx in (('transform_compressible', comp_idx), ('transform_pseudo_instructions', pseudo_idx), ('resolve_register_aliases', alias_idx)):
        if not idx and fname not in facts.funcs:
            raise AnalysisError('anchor vanished: pass {}'.format(fname))
    fn = facts.funcs['assemble']
    rep.check(bool(comp_idx) and bool(pseudo_idx) and max(comp_idx) > max(pseudo_idx), rule, 'a compression round follows pseudo-instruction expansion',
              lambda: Finding(rule, 'assemble', 'pipeline', 'no compression round runs after pseudo-instructions are expanded', line=fn.lineno))
    for ci in comp_idx:
        prior_alias = [a for a in alias_idx if a < ci]
        creators = [p for p in pseudo_idx if p < ci]
        ok = bool(prior_alias) and (not creators or max(prior_alias) > max(creators))
        rep.check(ok, rule, 'compression round {} sees alias-resolved register fields'.format(comp_idx.index(ci) + 1),
                  lambda ci=ci: Finding(rule, 'assemble', 'pipeline', 'a compression round runs before register aliases of the items it sees are resolved', line=fn.lineno))
    for i, (n, g) in enumerate(order):
        if i in comp_idx:
            rep.check(g == 'compress', rule, 'a compression round runs exactly when compression is requested',
                      lambda g=g: Finding(rule, 'assemble', 'pipeline', 'transform_compressible runs under the guard `{}` instead of exactly when the compress option is set: '
                                          '{}'.format(g, 'with -c some runs skip the round and eligible instructions stay 32 bits wide' if g.startswith('compress') else
                                                      'programs are compressed although compression was not requested'), line=fn.lineno), nontrivial=False)


def run(repo, tier):
    facts = Facts(repo.asm)
    rep = Report('C04', LEVEL,
                 'The compression relation is lifted from the AST: each of the criteria rules becomes a conjunction of formula '
                 'templates derived from the predicate factories\' own bodies; each construction arm gives the compressed class, mnemonic '
                 'and provenance of every operand.  For every rule and every field tuple on which it is the first to fire (exhaustive '
                 'walk of the lifted region, not of repository code) the emitted halfword - computed from the encoder closed form of C02 - '
                 'is decoded and expanded by the independent RVC oracle and must have the same architectural effect as the original '
                 'instruction; the region must lie inside the encoder\'s accepted set; label shift of exactly 2 on replacing paths; '
                 'encode-time re-validation of every masked operand; R-auipc; order of the two rounds.')
    rep.trusted_base = ['CPython ast', 'bbverif.comprel / pathwalk / bitdom', 'RVC oracle (decode + expansion table)']
    rep.not_decided = ['a compressed form that keeps its immediate but was chosen on a label-dependent value that changes when labels move '
                       'afterwards (encode-time re-validation turns this into a refusal, see C12; rules that drop the immediate are decided by R4.8)']
    rel = CompRel(facts)
    rep.count('criteria rules', len(rel.rules))
    rep.count('predicate factories lifted', len(rel.factories))
    check_structure(rep, facts, rel, 'R4.2')
    check_rules(rep, facts, rel, 'R4.1.meaning', 'R4.1.accepted', tier)
    # R4.3 label shift on replacing paths (L2 restricted to this pass)
    for compress_inc in (None,):
        LR.check_conservation(rep, rel.pa, 'R4.3', True)
    # R4.4 encode-time re-validation in the c.* encoders
    m16 = [m for m in facts.instructions() if m.startswith('c.')]
    encprops.check_mask_guard(rep, facts, m16, 'R4.4.revalidate')
    encprops.check_acceptance(rep, facts, [m for m in m16 if m in oracle.RVC], 'R4.4.legal-set')
    IS.check_auipc(rep, facts, 'R4.5.auipc-adjust', 'R4.5.auipc-sibling')
    check_rounds(rep, facts, 'R4.6.rounds')
    from .. import labelrules as _LB
    _LB.check_live_env(rep, facts, 'R4.7.live-env')
    from ..comprel import check_final_immediates
    check_final_immediates(rep, rel, 'R4.8.final-immediate')
    rep.floor('criteria rules', 20)
    rep.floor('predicate factories lifted', 3)
    rep.floor('region tuples enumerated', 20000)
    rep.floor('immediate-dropping rules', 2)
    return rep
