"""Dataflow helpers for the constant-evaluation / substitution rules (C11).

  XWalker          pathwalk.Walker that also inlines methods called on `self` (Arithmetic.eval split into helper methods) and reads
                   `type(x)(...)` as `x.__class__(...)`
  method_paths     all paths through a method with its helper methods / module-level helpers inlined
  item_loop_paths  one iteration of the item loop of a pass (pathwalk.loop_paths with the walker above)
  Resolver         what a Name inside a function denotes: a parameter (by position), a literal bound once, a module-level constant
"""
import ast

from .core import AnalysisError
from .astutil import dotted, walk_no_nested, fold, NotConstant
from .pathwalk import Walker, PathState, MUTATORS


class XWalker(Walker):
    def __init__(self, facts, cls=None, **kw):
        kw.setdefault('inline', 'all')
        super().__init__(facts, **kw)
        self.cls = cls
        self._synthetic = {}

    def _self_method(self, call, st):
        if self.cls is None or not isinstance(call, ast.Call):
            return None
        f = call.func
        if isinstance(f, ast.Attribute) and isinstance(f.value, ast.Name) and st.env.get(f.value.id) == ('name', 'self'):
            owner, m = self.facts.method(self.cls, f.attr)
            if m is None:
                return None
            key = '{}.{}'.format(owner, f.attr)
            if key in self._inline_stack or len(self._inline_stack) >= 8:
                return None
            if any(isinstance(a, ast.Starred) for a in call.args) or m.args.vararg or m.decorator_list:
                return None
            return key, m
        return None

    def inline_target(self, call, st):
        if isinstance(call, ast.Call) and isinstance(call.func, ast.Name) and call.func.id in self._synthetic:
            return None if call.func.id in self._inline_stack else self._synthetic[call.func.id]
        sm = self._self_method(call, st)
        if sm is not None:
            return sm[1]
        return super().inline_target(call, st)

    def inline_call(self, call, st, done):
        sm = self._self_method(call, st)
        if sm is not None:
            key, m = sm
            self._synthetic[key] = m
            synth = ast.Call(func=ast.Name(id=key, ctx=ast.Load()),
                             args=[ast.Name(id=call.func.value.id, ctx=ast.Load())] + list(call.args), keywords=list(call.keywords))
            ast.copy_location(synth, call)
            ast.fix_missing_locations(synth)
            return super().inline_call(synth, st, done)
        return super().inline_call(call, st, done)

    def sym(self, node, st):
        if (isinstance(node, ast.Call) and isinstance(node.func, ast.Call) and isinstance(node.func.func, ast.Name)
                and node.func.func.id == 'type' and len(node.func.args) == 1 and not node.func.keywords and 'type' not in st.env):
            fake = ast.Call(func=ast.Attribute(value=node.func.args[0], attr='__class__', ctx=ast.Load()), args=node.args, keywords=node.keywords)
            ast.copy_location(fake, node)
            ast.fix_missing_locations(fake)
            return super().sym(fake, st)
        return super().sym(node, st)


def method_paths(facts, cls, mname):
    owner, m = facts.method(cls, mname)
    if m is None:
        raise AnalysisError('anchor vanished: {}.{}'.format(cls, mname))
    w = XWalker(facts, cls=cls)
    st = PathState()
    for a in m.args.posonlyargs + m.args.args + m.args.kwonlyargs:
        st.env[a.arg] = ('name', a.arg)
    return m, w.run(m.body, st)


def item_loop_paths(facts, fn, walker=None):
    """(prelude states, loop node, paths of one iteration) of the first top-level `for X in <...>` loop of a pass."""
    w = walker or XWalker(facts, inline='default')
    pre = PathState()
    for a in fn.args.args + fn.args.kwonlyargs:
        pre.env[a.arg] = ('name', a.arg)
    target = None
    prelude_done = []
    live = [pre]
    for node in fn.body:
        if isinstance(node, ast.For):
            target = node
            break
        nxt = []
        for s in live:
            nxt.extend(w.stmt(node, s, prelude_done))
        live = nxt
    if target is None:
        raise AnalysisError('anchor vanished: main loop of {}'.format(fn.name))
    mutated = set()
    for n in ast.walk(target):
        if isinstance(n, ast.Name) and isinstance(n.ctx, ast.Store):
            mutated.add(n.id)
        if isinstance(n, ast.Call) and isinstance(n.func, ast.Attribute) and isinstance(n.func.value, ast.Name) and n.func.attr in MUTATORS:
            mutated.add(n.func.value.id)
        if isinstance(n, ast.Subscript) and isinstance(n.ctx, ast.Store) and isinstance(n.value, ast.Name):
            mutated.add(n.value.id)
    params = {a.arg for a in fn.args.args + fn.args.kwonlyargs}
    results = []
    for s in live:
        s = s.clone()
        s.events = []
        s.conds = []
        for n in mutated:
            if n in s.env and n not in params and s.env[n][0] not in ('closure',):
                s.env[n] = ('lv', n)
        if isinstance(target.target, ast.Name):
            s.env[target.target.id] = ('item', target.target.id)
        else:
            for e in target.target.elts:
                if isinstance(e, ast.Name):
                    s.env[e.id] = ('item', e.id)
        results.extend(w.run(target.body, s))
    return live, target, results


class Resolver:
    """Name resolution inside one function: parameters by position, locals bound exactly once, module-level constants."""

    def __init__(self, facts, fn):
        self.facts = facts
        self.fn = fn
        self.params = [a.arg for a in fn.args.posonlyargs + fn.args.args + fn.args.kwonlyargs]
        self.binds = {}
        for n in ast.walk(fn):
            if isinstance(n, ast.Assign):
                for t in n.targets:
                    if isinstance(t, ast.Name):
                        self.binds.setdefault(t.id, []).append(n.value)
            elif isinstance(n, (ast.AugAssign,)) and isinstance(n.target, ast.Name):
                self.binds.setdefault(n.target.id, []).append(None)
            elif isinstance(n, (ast.For, ast.comprehension)):
                for t in ast.walk(n.target):
                    if isinstance(t, ast.Name):
                        self.binds.setdefault(t.id, []).append(None)
        self.module_assigns = {}
        for st in facts.tree.body:
            if isinstance(st, ast.Assign):
                for t in st.targets:
                    if isinstance(t, ast.Name):
                        self.module_assigns.setdefault(t.id, []).append(st.value)

    def param_index(self, node, depth=0):
        """Index of the parameter a Name denotes (directly or through `alias = param`), else None."""
        if not isinstance(node, ast.Name) or depth > 4:
            return None
        b = self.binds.get(node.id)
        if b:
            if len(b) == 1 and isinstance(b[0], ast.Name):
                return self.param_index(b[0], depth + 1)
            return None
        return self.params.index(node.id) if node.id in self.params else None

    def literal(self, node, depth=0):
        """Folded value of a literal collection an expression denotes (set / frozenset / tuple / list display, possibly behind a
        local or module-level name), else None."""
        if depth > 4 or node is None:
            return None
        if isinstance(node, ast.Call) and dotted(node.func) in ('set', 'frozenset', 'tuple', 'list') and len(node.args) == 1 and not node.keywords:
            v = self.literal(node.args[0], depth + 1)
            return set(v) if v is not None and dotted(node.func) in ('set', 'frozenset') else v
        if isinstance(node, (ast.Set, ast.Tuple, ast.List)):
            try:
                return fold(node, self.facts.consts)
            except NotConstant:
                return None
        if isinstance(node, ast.Name):
            b = self.binds.get(node.id)
            if b:
                return self.literal(b[0], depth + 1) if len(b) == 1 else None
            if node.id in self.params:
                return None
            m = self.module_assigns.get(node.id)
            if m and len(m) == 1:
                return self.literal(m[0], depth + 1)
        return None


def encoder_param_kinds(facts, fname, _stack=()):
    """{parameter: 'reg' | 'other'} of a module-level encoder: a parameter is register-kinded when its value reaches
    lookup_register - in the function itself or in a function it is forwarded to (a_type -> r_type, a `reg_field(rd)` helper).
    Value-kind dataflow over the syntax tree; independent of the bit-level interpreter."""
    fn = facts.funcs.get(fname)
    if fn is None:
        raise AnalysisError('anchor vanished: encoder {}'.format(fname))
    params = [a.arg for a in fn.args.posonlyargs + fn.args.args + fn.args.kwonlyargs]
    kinds = {p: 'other' for p in params}
    if fname in _stack or len(_stack) > 4:
        return kinds
    # a parameter rebound before it is looked up no longer carries the operand itself (only `p = lookup_register(p)` style
    # rebinding is the lookup); aliases `r = p` are followed one step
    alias = {}
    for n in walk_no_nested(fn):
        if isinstance(n, ast.Assign) and len(n.targets) == 1 and isinstance(n.targets[0], ast.Name) and isinstance(n.value, ast.Name) and n.value.id in params:
            alias[n.targets[0].id] = n.value.id
    for n in ast.walk(fn):
        if not isinstance(n, ast.Call) or not isinstance(n.func, ast.Name):
            continue
        callee = n.func.id
        if callee == 'lookup_register':
            if n.args and isinstance(n.args[0], ast.Name):
                p = alias.get(n.args[0].id, n.args[0].id)
                if p in kinds:
                    kinds[p] = 'reg'
        elif callee in facts.funcs and callee != fname:
            sub = None
            cfn = facts.funcs[callee]
            cpos = [a.arg for a in cfn.args.posonlyargs + cfn.args.args]
            pairs = [(cpos[i], a) for i, a in enumerate(n.args) if i < len(cpos) and not isinstance(a, ast.Starred)]
            pairs += [(k.arg, k.value) for k in n.keywords if k.arg is not None]
            for cp, a in pairs:
                if isinstance(a, ast.Name) and alias.get(a.id, a.id) in kinds:
                    if sub is None:
                        sub = encoder_param_kinds(facts, callee, _stack + (fname,))
                    if sub.get(cp) == 'reg':
                        kinds[alias.get(a.id, a.id)] = 'reg'
    return kinds
