"""C01 - 32-bit instructions encode exactly as the RISC-V specification defines (and injectively)."""
from ..core import Report
from ..facts import Facts
from .. import oracle, encprops

LEVEL = 'proof'


def run(repo, tier):
    facts = Facts(repo.asm)
    rep = Report('C01', LEVEL,
                 'Bit-provenance abstract interpretation of the 9 32-bit format encoders under the constants bound by each of '
                 'the 66 partial bindings yields, per mnemonic, the exact function operand tuple -> word for all operand values '
                 'at once; it is compared bit by bit with an oracle table written from the ISA manual, checked for injectivity on '
                 'the derived accepted set, and the front end (token -> constructor -> attribute -> args() -> encoder parameter) '
                 'is followed by a token-provenance dataflow over parse_item.')
    rep.trusted_base = ['CPython ast', 'bbverif.bitdom transfer functions', 'bbverif.oracle RV32 table (from the ISA manual)',
                        'that Python eval/int turn a literal operand token into the integer it spells']
    rep.not_decided = ['value computed by eval() for an operand expression (C11 trusted base)',
                       'CSR numbers >= 0x800 are only expressible as negative immediates (I-format range)']
    mns = encprops.check_tables(rep, facts, 'R1.tables', oracle.RV32, compressed=False)
    encprops.check_layout(rep, facts, mns, 'R1.layout')
    encprops.check_injective(rep, facts, mns, 'R1.injective')
    encprops.check_disjoint(rep, facts, mns, 'R1.disjoint', 32)
    encprops.check_wiring(rep, facts, 'R1.wiring', False, repo.text['docs/instruction_reference.rst'])
    encprops.check_rebuild_invariant(rep, facts, 'R1.rebuild')
    encprops.check_registers(rep, facts, 'R1.registers')
    encprops.check_resolve_instructions(rep, facts, 'R1.pack')
    rep.floor('mnemonic bindings', 66)
    rep.floor('encoder summaries', 66)
    rep.floor('parse paths analysed', 14)
    rep.floor('item classes checked for the rebuild invariant', 30)
    return rep
