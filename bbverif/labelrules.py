"""Rules L1, L4, L5 and the pass-order effect analysis (MUT / BAKE / PEEK) shared by C03 and C08."""
import ast

from .core import AnalysisError, Finding
from .astutil import unparse, dotted, walk_no_nested
from .pathwalk import show, is_const, C, PathState
from .layout import Sizes, LinS, pipeline
from . import layoutrules as LR
from . import immsites as IS


def check_L1(report, facts, rule):
    """resolve_labels: labels[name] = running sum of size() of the items before the label."""
    pa = LR.pass_analysis(facts, 'resolve_labels')
    n = 0
    for r in pa.rows:
        for key, val, node, idx in r['acc'].label_sets:
            n += 1
            adv_before = [a for a in r['acc'].advances if a[4] < idx]
            ok = val == ('lv', pa.pos_var) and not adv_before and key == ('attr', pa.item, 'name')
            if not ok and not plain_offset_value(val):
                # recorded from something the rules do not see through (the field of a helper object, a call): no verdict
                raise AnalysisError('resolve_labels: a label is recorded as {}, which is not followed back to the running offset'.format(show(val)[:80]))
            report.check(ok, rule, 'labels[item.name] = offset reached so far',
                         lambda node=node, val=val: Finding(rule, 'resolve_labels', node,
                                                            'a label is recorded as {} instead of the running offset at its definition'.format(show(val)), line=node.lineno))
            f = r['path'].facts.get(pa.item)
            isa = f['isa'] if f else set()
            report.check('Label' in isa, rule, 'only Label items define labels',
                         lambda node=node: Finding(rule, 'resolve_labels', node, 'labels are defined from items that are not Label', line=node.lineno))
    report.count('label definition sites', n)
    # position starts at 0
    fn = facts.funcs['resolve_labels']
    require_offset_from_zero(report, pa, fn, rule, 'resolve_labels', 'offset counting starts at 0',
                             'no running offset that starts at 0 and advances by the size of each item')


def plain_offset_value(v):
    """A value built from local variables and integer constants by + / - only."""
    if is_const(v):
        return isinstance(v[1], int)
    if v[0] in ('lv', 'havoc'):
        return True
    if v[0] == 'bin' and v[1] in ('+', '-'):
        return plain_offset_value(v[2]) and plain_offset_value(v[3])
    return False


def require_offset_from_zero(report, pa, fn, rule, fname, text, message):
    """The pass keeps a running offset that starts at 0.  A counter that visibly starts elsewhere is a finding; a pass whose
    bookkeeping is not a local counter at all (a helper object, a closure) is not understood: no verdict."""
    if pa.pos_var is not None:
        report.ok(rule, text)
        return
    nonzero = None
    for st in pa.loop_fn.body:
        if st is pa.loop:
            break
        if isinstance(st, ast.Assign) and len(st.targets) == 1 and isinstance(st.targets[0], ast.Name) and isinstance(st.value, ast.Constant) \
                and isinstance(st.value.value, int) and not isinstance(st.value.value, bool) and st.value.value != 0:
            name = st.targets[0].id
            if any(isinstance(n, ast.AugAssign) and isinstance(n.target, ast.Name) and n.target.id == name for n in ast.walk(pa.loop)):
                nonzero = st
    if nonzero is not None:
        report.fail(Finding(rule, fname, nonzero, message + ' (the counter starts at {})'.format(nonzero.value.value), line=nonzero.lineno), instance=text)
        return
    raise AnalysisError('{}: no local running offset (a counter set to 0 before the item loop and advanced inside it) is recognised'.format(fname))


def position_starts_at_zero(report, facts, fname, rule):
    fn = facts.funcs[fname]
    pa = LR.pass_analysis(facts, fname)
    require_offset_from_zero(report, pa, fn, rule, fname, '{}: offset counting starts at 0'.format(fname),
                             'the pass has no running offset that starts at 0 and advances with the emitted items')


def method_return_lin(facts, cls, mname):
    """LinS of the value returned by a small method on its non-raising paths, over symbols of its parameters."""
    ci = facts.classes.get(cls)
    if ci is None or mname not in ci.methods:
        raise AnalysisError('anchor vanished: {}.{}'.format(cls, mname))
    m = ci.methods[mname]
    paths = IS.function_paths(facts, m)
    sz = Sizes(facts)
    outs = []
    for p in paths:
        if p.end != 'return':
            continue
        val = [e for e in p.events if e[0] == 'return'][-1][1]
        outs.append((sz.lin(val, p), p, val))
    return m, outs


def check_L4(report, facts, rule):
    """Final values: evaluated at the item's own final offset against ChainMap(constants, labels); Offset = label - position,
    Position = base + label."""
    pa = LR.pass_analysis(facts, 'resolve_immediates')
    sites = 0
    for r in pa.rows:
        p = r['path']
        for ev in p.events:
            if ev[0] != 'value':
                continue
            v = ev[1]
            pos = env = None
            if v[0] == 'mcall' and v[2] == 'eval' and len(v[3]) == 3 and v[1] == ('attr', pa.item, 'imm'):
                pos, env = v[3][0], v[3][1]
            elif v[0] == 'call' and v[1] in facts.funcs and len(v[2]) >= 3 and v[2][0] == pa.item:
                pos, env = v[2][1], v[2][2]
            else:
                continue
            sites += 1
            node = ev[2]
            # on a path that knows the item is the jalr half of an auipc pair, a constant displacement is R-auipc's business
            base, k = pos, 0
            while base[0] == 'bin' and base[1] in ('+', '-') and is_const(base[3]) and isinstance(base[3][1], int):
                k += base[3][1] if base[1] == '+' else -base[3][1]
                base = base[2]
            auipc_path = any(IS.contains(t, C('is_auipc_jump')) or IS.contains(t, ('attr', pa.item, 'is_auipc_jump'))
                             for t, pol, _ in p.conds if pol)
            if auipc_path and base == ('lv', pa.pos_var):
                pos = base
            report.check(pos == ('lv', pa.pos_var), rule + '.position', 'resolve_immediates evaluates at the item\'s own start offset',
                         lambda node=node, pos=pos: Finding(rule + '.position', 'resolve_immediates', node,
                                                            'immediates are evaluated at {} instead of the offset at which the item starts'.format(show(pos)), line=node.lineno))
            good_env = env[0] == 'call' and env[1] == 'ChainMap' and env[2] == (('name', 'constants'), ('name', 'labels'))
            report.check(good_env, rule + '.env', 'resolve_immediates evaluates against ChainMap(constants, labels)',
                         lambda node=node, env=env: Finding(rule + '.env', 'resolve_immediates', node,
                                                            'immediates are evaluated against {}'.format(show(env)), line=node.lineno))
    report.count('baking evaluation sites', sites)
    # what is stored into the item is the value evaluated on this very path (at this item's offset): a value taken from a
    # table filled at other positions (a memo keyed by the expression's text) is stale for every position-dependent operand
    for r in pa.rows:
        p = r['path']
        if p.end == 'raise':
            continue
        for v, at in IS.stored_immediates(p):
            ev = (None, None, None, v, at)
            while v[0] == 'res':
                v = v[3]
            evals = IS.find_all(v, lambda t: (t[0] == 'mcall' and t[2] == 'eval' and len(t[3]) == 3) or
                                (t[0] == 'call' and t[1] in facts.funcs and len(t[2]) >= 2 and t[2][0] == pa.item))
            if evals:
                report.ok(rule + '.bake', 'the stored immediate is the value evaluated on this path')
                continue
            if v[0] == 'sub':
                report.fail(Finding(rule + '.bake', 'resolve_immediates', ev[4],
                                    'the immediate stored in the item is read from {} instead of being the value evaluated at the item\'s own offset: '
                                    'an operand that depends on the position (%offset inside %hi / %lo of a far call, %position) gets the value of another site'.format(show(v)[:60]),
                                    line=getattr(ev[4], 'lineno', None)), instance='stored immediate is evaluated here')
            else:
                raise AnalysisError('resolve_immediates: the value stored as the immediate ({}) is not followed back to an evaluation'.format(show(v)[:80]))
    position_starts_at_zero(report, facts, 'resolve_immediates', rule + '.position')
    # Offset.eval / Position.eval normal forms
    m, outs = method_return_lin(facts, 'Offset', 'eval')
    params = [a.arg for a in m.args.args]
    posn, envn = ('name', params[1]), ('name', params[2])
    want = LinS({('sub', envn, ('attr', ('name', 'self'), 'reference')): 1, posn: -1})
    report.check(len(outs) >= 1 and all(o[0] == want for o in outs), rule + '.offset', 'Offset.eval == env[reference] - position',
                 lambda: Finding(rule + '.offset', 'Offset.eval', m, '%offset evaluates to {} instead of label - position'.format(
                     '; '.join(repr(o[0]) for o in outs)), line=m.lineno))
    m, outs = method_return_lin(facts, 'Position', 'eval')
    params = [a.arg for a in m.args.args]
    posn, envn, linen = ('name', params[1]), ('name', params[2]), ('name', params[3])
    base = ('mcall', ('attr', ('name', 'self'), 'expr'), 'eval', (posn, envn, linen), ())
    want = LinS({('sub', envn, ('attr', ('name', 'self'), 'reference')): 1, base: 1})
    report.check(len(outs) >= 1 and all(o[0] == want for o in outs), rule + '.position-modifier', 'Position.eval == base + env[reference]',
                 lambda: Finding(rule + '.position-modifier', 'Position.eval', m, '%position evaluates to {} instead of base + label'.format(
                     '; '.join(repr(o[0]) for o in outs)), line=m.lineno))
    # Arithmetic.eval looks names up in the same env
    ci = facts.classes.get('Arithmetic')
    m = ci.methods.get('eval') if ci else None
    if m is None:
        raise AnalysisError('anchor vanished: Arithmetic.eval')
    params = [a.arg for a in m.args.args]
    if len(params) < 3:
        raise AnalysisError('Arithmetic.eval does not take (position, env, line)')
    # every builtin eval(...) reached from Arithmetic.eval - directly or through methods of the class the environment is handed
    # to - must evaluate self.expr with that environment as its namespace
    found = []          # (call node, verdict True / False / None)
    seen = set()

    def scan(meth, env_names):
        key = (meth.name, tuple(sorted(env_names)))
        if key in seen:
            return
        seen.add(key)
        for n in ast.walk(meth):
            if not isinstance(n, ast.Call):
                continue
            if dotted(n.func) == 'eval':
                if not n.args or unparse(n.args[0]) != 'self.expr' or n.keywords:
                    found.append((n, None))
                    continue
                ns = n.args[2] if len(n.args) == 3 else None
                if isinstance(ns, ast.Name) and ns.id in env_names:
                    found.append((n, True))
                elif ns is None or not any(isinstance(x, ast.Name) and x.id in env_names for x in ast.walk(ns)):
                    found.append((n, False))      # names are resolved in something that is not the environment given
                else:
                    found.append((n, None))       # derived from the environment in a way that is not followed
            elif isinstance(n.func, ast.Attribute) and isinstance(n.func.value, ast.Name) and n.func.value.id == 'self' and n.func.attr in ci.methods:
                callee = ci.methods[n.func.attr]
                cparams = [a.arg for a in callee.args.args][1:]
                passed = set()
                for cp, a in zip(cparams, n.args):
                    if isinstance(a, ast.Name) and a.id in env_names:
                        passed.add(cp)
                for kw in n.keywords:
                    if kw.arg and isinstance(kw.value, ast.Name) and kw.value.id in env_names:
                        passed.add(kw.arg)
                scan(callee, passed)
    scan(m, {params[2]})
    if not found:
        raise AnalysisError('Arithmetic.eval: no eval(self.expr, ..) is reached from it: how names are resolved is not understood')
    if any(v is None for _, v in found) and not any(v is False for _, v in found):
        raise AnalysisError('Arithmetic.eval: the namespace of `{}` is not followed back to the environment parameter'.format(
            unparse(next(n for n, v in found if v is None))[:80]))
    bad = [n for n, v in found if v is False]
    report.check(not bad, rule + '.arith', 'Arithmetic.eval resolves names in the environment it is given',
                 lambda: Finding(rule + '.arith', 'Arithmetic.eval', bad[0],
                                 'the arithmetic expression is not evaluated with the given environment as its namespace', line=bad[0].lineno))


def check_L5(report, facts, rule):
    """labels is never rebound inside a pass, and assemble hands the caller's dict to every pass."""
    for name, guard, node, args, tgt in pipeline(facts):
        fn = facts.funcs[name]
        params = [a.arg for a in fn.args.args]
        if 'labels' not in params:
            continue
        bad = []
        for n in ast.walk(fn):
            if isinstance(n, ast.Name) and n.id == 'labels' and isinstance(n.ctx, (ast.Store, ast.Del)):
                bad.append(n)
        report.check(not bad, rule, '{}: parameter `labels` never rebound'.format(name),
                     lambda bad=bad, name=name: Finding(rule, name, getattr(bad[0], '_parent', bad[0]),
                                                        'the pass rebinds `labels`: its updates no longer reach the table the caller reads', line=bad[0].lineno))
        pass
    # assemble hands one and the same table to every pass that takes `labels`: the caller's dict when one is given
    from .layout import pass_pipeline
    pl = pass_pipeline(facts)
    afn = facts.funcs['assemble']
    n = 0
    # `if labels is None: labels = {}` forks the evaluation: on one path every pass gets the caller's dict, on the other an object
    # created in this call.  A fresh object is fine on a path as long as the caller's dict is what the pass gets on another one.
    seen_values = {}
    from .layout import item_passes as _ip
    for value, calls in pl.all_paths():
        for nm, c, its in _ip(facts, calls):
            f = facts.funcs.get(c.name)
            if f is None:
                continue
            params = [a.arg for a in f.args.args]
            if 'labels' in params and params.index('labels') < len(c.args):
                seen_values.setdefault(c.name, set()).add(c.args[params.index('labels')])
    for value, calls, assumed in pl.all_paths_with_assumptions():
        none_path = ('labels is None', True) in assumed or ('labels is not None', False) in assumed or ('labels == None', True) in assumed \
            or ('not labels is None', False) in assumed
        tables = []
        from .layout import item_passes
        for nm, c, its in item_passes(facts, calls):
            f = facts.funcs.get(c.name)
            if f is None:
                continue
            params = [a.arg for a in f.args.args]
            if 'labels' not in params:
                continue
            idx = params.index('labels')
            v = c.args[idx] if idx < len(c.args) else dict(c.kwargs).get('labels') if not isinstance(c.kwargs, dict) else c.kwargs.get('labels')
            tables.append((c, v))
        for c, v in tables:
            n += 1
            ok = v is not None and (caller_table(v, 'labels') or (v[0] == 'ref' and none_path and ('param', 'labels') in seen_values.get(c.name, set())))
            report.check(ok, rule, 'compress={}: {} receives the caller\'s labels dict (a fresh one only when none is given)'.format(value, c.name),
                         lambda c=c, v=v: Finding(rule, 'assemble', c.node, '{} does not receive the label table of this assemble() call (it gets {})'.format(
                             c.name, v[:2] if v else None), line=getattr(c.node, 'lineno', afn.lineno)))
            report.check(v == tables[0][1], rule, 'compress={}: {} receives the same table as {}'.format(value, c.name, tables[0][0].name),
                         lambda c=c: Finding(rule, 'assemble', c.node, '{} is handed a different label table than {}'.format(c.name, tables[0][0].name),
                                             line=getattr(c.node, 'lineno', afn.lineno)), nontrivial=False)
    report.count('label table hand-overs', n)


def param_holds_labels(facts, fname, pname):
    """Does parameter `pname` of pass `fname` receive the label table (as opposed to the constants table) from assemble?
    True / False, or None when the pass is not called with that parameter on any evaluated path."""
    from .layout import pass_pipeline, item_passes
    from .passorder import origins
    f = facts.funcs.get(fname)
    if f is None:
        return None
    params = [a.arg for a in f.args.args]
    if pname not in params:
        return None
    idx = params.index(pname)
    verdict = None
    for value, calls in pass_pipeline(facts).all_paths():
        for nm, c, its in item_passes(facts, calls):
            if c.name != fname and nm != fname:
                continue
            v = c.args[idx] if idx < len(c.args) else None
            if v is None:
                continue
            leaves = origins(v)
            hit = any(l == ('param', 'labels') for l in leaves)
            verdict = bool(verdict) or hit
    return verdict


def caller_table(v, pname):
    """The abstract value is the caller's argument `pname`, replaced by an object created in this call exactly when it is None."""
    if v == ('param', pname):
        return True
    if v[0] == 'choice':
        test = ' '.join(str(v[1]).split())
        a, b = v[2], v[3]
        if test in ('{} is not None'.format(pname), '{} != None'.format(pname), 'not {} is None'.format(pname)):
            return a == ('param', pname) and b[0] == 'ref'
        if test in ('{} is None'.format(pname), '{} == None'.format(pname)):
            return b == ('param', pname) and a[0] == 'ref'
    return False


def _offset_only_in_unfollowed_calls(facts, val, pos):
    """The call of a repository function / local closure inside `val` that hides every occurrence of `pos` (None when `pos` does not
    occur, or occurs in the open: arithmetic, a method of the item, a constructor argument)."""
    if not IS.contains(val, pos):
        return None
    found = []

    def walk(t):
        # True when pos occurs in t outside any unfollowed call
        if t == pos:
            return True
        if not isinstance(t, tuple):
            return False
        if t and t[0] == 'call' and len(t) == 4 and isinstance(t[1], str) and t[1] in facts.funcs and IS.contains(t, pos):
            from .pathwalk import imm_eval_wrappers
            if t[1] in imm_eval_wrappers(facts):
                return True          # the evaluation of an immediate at this offset: understood (a baking site)
            found.append(t)
            return False
        if t and t[0] == 'callv' and IS.contains(t, pos):
            found.append(t)
            return False
        return any(walk(x) for x in t)
    in_the_open = walk(val)
    return found[0] if (found and not in_the_open) else None


def pass_effects(facts):
    """{pass name: set of effects} with MUT (writes labels), BAKE (stores a label-dependent evaluation into an item)."""
    out = {}
    sites = IS.eval_sites(facts)
    item_sites = [s for s in sites if s.recv[0] == 'attr' and s.recv[2] == 'imm']
    wr = IS.wrappers(facts, item_sites)
    wcalls = IS.wrapper_call_sites(facts, wr)
    for name, guard, node, args, tgt in pipeline(facts):
        if name in out or name in ('read_lines', 'resolve_blobs'):
            continue
        eff = set()
        pa = LR.pass_analysis(facts, name)
        for r in pa.rows:
            if r['acc'].label_updates or r['acc'].label_sets:
                eff.add('MUT')
            # a value computed from the running offset is stored into an emitted item (align padding): it is only right if no
            # later pass changes the size of anything before it
            if pa.pos_var is not None and any(IS.contains(val, ('lv', pa.pos_var)) for val, n in r['app_values']):
                for val, n in r['app_values']:
                    hidden = _offset_only_in_unfollowed_calls(facts, val, ('lv', pa.pos_var))
                    if hidden is not None:
                        # the running offset is handed to a helper that is not followed, and the helper's result is what reaches the
                        # item (the name of a form chosen by a search, say): whether bytes depend on the offset is not known
                        raise AnalysisError('{}: the item appended at line {} is built from {}, a call that takes the running offset and is not followed'.format(
                            name, getattr(n, 'lineno', '?'), show(hidden)[:80]))
                eff.add('BAKE')
                eff.add('POSBAKE')
        for s in sites:
            if s.fn == name or s.fn.startswith(name + '.'):
                uses_labels = IS.contains(s.env, ('name', 'labels')) or s.env[0] == 'name'
                if s.kind == 'BAKE' and uses_labels:
                    eff.add('BAKE')
                elif s.kind in ('PEEK', 'RETURN') and uses_labels:
                    eff.add('PEEK')
        for c in wcalls:
            if c['fn'] == name or c['fn'].startswith(name + '.'):
                eff.add('BAKE' if c['kind'] == 'BAKE' else 'PEEK')
        out[name] = eff
    return out


def check_position_frozen(report, facts, rule):
    """A pass that stores a function of the running byte offset into the items it emits (align padding) must not be followed by
    a pass that still changes item sizes: the padding would no longer bring the offset to the boundary."""
    eff = pass_effects(facts)
    n = 0
    for compress in (False, True):
        order = [(nm, node) for nm, g, node, a, t in pipeline(facts) if g == 'always' or (g == 'compress' and compress)]
        for b, (nm, node) in enumerate(order):
            if 'POSBAKE' not in eff.get(nm, ()):
                continue
            n += 1
            late = [order[m][0] for m in range(b + 1, len(order)) if 'MUT' in eff.get(order[m][0], ())]
            report.check(not late, rule, 'compress={}: no pass changes item sizes after {} has fixed offset-dependent bytes'.format(compress, nm),
                         lambda nm=nm, late=late, node=node: Finding(rule, 'assemble', node,
                                                                  '{} emits bytes computed from the running offset, but {} still change(s) item sizes afterwards: the padding no longer '
                                                                  'ends on the requested boundary'.format(nm, late), line=node.lineno))
    report.count('offset-dependent emission passes', n)


def check_bake_after_mut(report, facts, rule):
    eff = pass_effects(facts)
    for compress in (False, True):
        order = [(n, node) for n, g, node, a, t in pipeline(facts) if g == 'always' or (g == 'compress' and compress)]
        muts = [i for i, (n, _) in enumerate(order) if 'MUT' in eff.get(n, ())]
        bakes = [i for i, (n, _) in enumerate(order) if 'BAKE' in eff.get(n, ())]
        if not bakes or not muts:
            raise AnalysisError('effect analysis found no {} pass'.format('BAKE' if not bakes else 'MUT'))
        for b in bakes:
            late = [order[m][0] for m in muts if m > b]
            report.check(not late, rule, 'compress={}: {} runs after the last label-moving pass'.format(compress, order[b][0]),
                         lambda b=b, late=late: Finding(rule, 'assemble', order[b][1],
                                                        'label-dependent values are baked by {} before {} still move labels'.format(order[b][0], late),
                                                        line=order[b][1].lineno))
    report.sample({'effects': {k: sorted(v) for k, v in eff.items()}})
    return eff


def check_live_env(report, facts, rule):
    """Every environment handed to an evaluation inside a pass that also moves labels must be a *live view* of the label
    table (ChainMap(constants, labels) or the dict itself): a copy taken before the loop goes stale as soon as the pass shifts
    labels, so later decisions in the same pass are taken on offsets that are no longer true."""
    n = 0
    for name, guard, node, args, tgt in pipeline(facts):
        fn = facts.funcs[name]
        params = [a.arg for a in fn.args.args]
        if 'labels' not in params:
            continue
        mutates = any(isinstance(c, ast.Call) and isinstance(c.func, ast.Attribute) and c.func.attr in ('update', '__setitem__', 'pop', 'clear')
                      and isinstance(c.func.value, ast.Name) and c.func.value.id == 'labels' for c in ast.walk(fn)) or \
            any(isinstance(s, ast.Assign) and any(isinstance(t, ast.Subscript) and isinstance(t.value, ast.Name) and t.value.id == 'labels' for t in s.targets) for s in ast.walk(fn))
        # locals whose definition mentions labels
        for st in ast.walk(fn):
            if not (isinstance(st, ast.Assign) and len(st.targets) == 1 and isinstance(st.targets[0], ast.Name)):
                continue
            v = st.value
            mentions = any(isinstance(x, ast.Name) and x.id == 'labels' for x in ast.walk(v))
            if not mentions or st.targets[0].id == 'labels':
                continue
            var = st.targets[0].id
            # is this local passed on as an argument of a call (an environment), as opposed to labels.update(<it>)?
            used_as_env = False
            for c in ast.walk(fn):
                if isinstance(c, ast.Call):
                    if isinstance(c.func, ast.Attribute) and c.func.attr == 'update' and isinstance(c.func.value, ast.Name) and c.func.value.id == 'labels':
                        continue
                    argn = [a for a in list(c.args) + [k.value for k in c.keywords] if isinstance(a, ast.Name) and a.id == var]
                    if argn:
                        used_as_env = True
            if not used_as_env:
                continue
            n += 1
            live = isinstance(v, ast.Call) and dotted(v.func) in ('ChainMap', 'collections.ChainMap') and any(isinstance(a, ast.Name) and a.id == 'labels' for a in v.args)
            live = live or (isinstance(v, ast.Name) and v.id == 'labels')
            report.check(live or not mutates, rule, '{}: evaluation environment `{}` is a live view of labels'.format(name, var),
                         lambda name=name, st=st, var=var: Finding(rule, name, st,
                                                                  '`{}` copies the label table ({}) and is then used as the evaluation environment while this pass keeps shifting labels: '
                                                                  'decisions later in the pass are taken on stale offsets (e.g. a backward branch judged in range for c.beqz that is not)'.format(
                                                                      var, unparse(v)[:60]), line=st.lineno))
    report.count('evaluation environments built from labels', n)
