"""C06 - unrepresentable operands are rejected, never truncated; legal ones accepted."""
from ..core import Report, Finding, AnalysisError
from ..facts import Facts
from .. import oracle, encprops
from ..encsum import all_summaries, summary_of

LEVEL = 'proof'


def check_bake_identity(rep, facts, rule):
    """The operand an encoder refuses or accepts is the number the immediate expression evaluated to: between that evaluation and
    the construction of the final item no transformation may be applied to it (a 32-bit wrap, a mask, a clamp would turn an
    unrepresentable operand into a representable one before the encoder's range check sees it)."""
    from .. import layoutrules as LR, immsites as IS
    from ..layout import pipeline
    from ..pathwalk import show, is_const, C
    from ..core import AnalysisError
    n = 0
    for name, guard, node, args, tgt in pipeline(facts):
        if name in ('resolve_blobs',):
            continue
        pa = LR.pass_analysis(facts, name)
        for r in pa.rows:
            p = r['path']
            if p.end == 'raise':
                continue
            for v, at in IS.stored_immediates(p):
                ev = (None, None, None, v, at)
                while v[0] == 'res':
                    v = v[3]
                evals = IS.find_all(v, lambda t: (t[0] == 'mcall' and t[2] == 'eval' and len(t[3]) == 3) or
                                    (t[0] == 'call' and t[1] in facts.funcs and len(t[2]) >= 2 and t[2][0] == pa.item))
                if not evals:
                    continue           # not an evaluated immediate (e.g. a re-wrapped expression object)
                n += 1
                rep.check(v in evals, rule, '{}: the evaluated immediate is stored unchanged'.format(name),
                          lambda ev=ev, v=v, name=name: Finding(rule, name, ev[4],
                                                                'the evaluated immediate is transformed ({}) before it reaches the encoder: an operand outside the '
                                                                'encodable range can be mapped into it instead of being refused'.format(show(v)[:90]),
                                                                line=getattr(ev[4], 'lineno', None)))
    rep.count('immediate baking sites', n)


def run(repo, tier):
    facts = Facts(repo.asm)
    rep = Report('C06', LEVEL,
                 'For every operand of every one of the 93 bindings the accepted set derived by abstract interpretation '
                 '(partition of intervals x congruences, alias windows, constraint closures) is compared, both inclusions, with the '
                 'legal set of the ISA tables; the structural rule mask-after-guard names the construct: every mask applied to an '
                 'operand-derived value must be dominated by a range guard whose interval fits the masked width.')
    rep.trusted_base = ['CPython ast', 'bbverif.bitdom transfer functions', 'bbverif.oracle operand ranges (from the ISA manual)']
    rep.not_decided = ['acceptance through the text front end of operands that are expressions (C11)']
    m32 = encprops.check_tables(rep, facts, 'R6.tables', oracle.RV32, compressed=False)
    m16 = encprops.check_tables(rep, facts, 'R6.tables', oracle.RVC, compressed=True)
    at = encprops.attempt
    at(rep, encprops.check_acceptance, rep, facts, m32 + m16, 'R6.accepted-set')
    at(rep, encprops.check_mask_guard, rep, facts, m32 + m16, 'R6.mask-after-guard')
    # refusal is a raise on a path that never reaches the return: true by construction of the interpreter (a raise
    # kills the abstract path); count the refusal sites that were seen
    sums = all_summaries(facts)
    sites = set()
    for m in m32 + m16:
        s_ = summary_of(rep, sums, m)
        for r in (s_.raises if s_ is not None else ()):
            sites.add((r['fn'], r['node'].lineno))
    rep.analysed['refusal sites reached'] = len(sites)
    at(rep, encprops.check_registers, rep, facts, 'R6.registers')
    # text front end: an operand token of an accepted line may not be silently ignored (c.lwsp x1, 8(x9) must not assemble as sp-relative)
    at(rep, encprops.check_ignored_tokens, rep, facts, 'R6.ignored-operand')
    at(rep, check_bake_identity, rep, facts, 'R6.bake-identity')
    # an operand is the integer its expression evaluates to: an expression whose value is not an integer (7/2, 2047.9) is
    # unrepresentable and has to be refused, not rounded into range (the rule itself lives with C11)
    from .c11 import check_integer_results
    scratch = Report('C06', LEVEL, '')
    und_ = []
    try:
        check_integer_results(scratch, facts, und_)
    except AnalysisError as e:
        und_.append(str(e))
    for f in scratch.findings:
        f.rule = 'R6.integer-operand'
        rep.fail(f, instance='operand expressions evaluate to exact integers or are refused')
    if not scratch.findings:
        if und_:
            rep.undecided(und_[0])
        else:
            rep.ok('R6.integer-operand', 'operand expressions evaluate to exact integers or are refused')
    # an operand that a compression rule drops never reaches an encoder: the rule itself has to pin it to the one value the
    # compressed form stands for, or an out-of-range operand (addi x0, x0, 5000 -> c.nop) is accepted under -c
    from ..comprel import CompRel, check_final_immediates
    at(rep, lambda: check_final_immediates(rep, CompRel(facts), 'R6.dropped-operand'))
    rep.floor('immediate baking sites', 1)
    rep.floor('mnemonic bindings', 93)
    rep.floor('refusal sites reached', 30)
    return rep
