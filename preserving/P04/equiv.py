#!/usr/bin/env python
"""
Differential check: refactored bronzebeard/asm.py vs. the version at git HEAD.

Loads the ORIGINAL module from `git show HEAD:bronzebeard/asm.py` and the
working-tree module side by side (under different names) and compares, over a
few thousand seeded random programs plus include / include_bytes trees:

  - the assembled bytes
  - the resulting labels and constants dicts (also for refused programs)
  - for refused programs: the exception type and the error line
  - the full INFO log stream (exercises every str() of every item class)

It also compares the item classes directly (constructor signatures, repr / str /
size / args, abstractness) and drives the individual passes with hand-built
items, including ones assemble() itself cannot produce.

Exit status is 0 only if everything matches.  Error *messages* and log text are
expected to be identical too; message-only differences are reported but are
fatal only with --strict-messages (wording is allowed to drift, kind+line not).
"""

import argparse
import importlib.util
import inspect
import logging
import os
import random
import shutil
import subprocess
import sys
import tempfile
import warnings

# both modules eval() user expressions such as "1 (2)": not our concern here
warnings.simplefilter('ignore', SyntaxWarning)

HERE = os.path.dirname(os.path.abspath(__file__))
SEED = 20260927


# --------------------------------------------------------------------------
# loading both modules
# --------------------------------------------------------------------------

def load_module(name, path):
    spec = importlib.util.spec_from_file_location(name, path)
    module = importlib.util.module_from_spec(spec)
    sys.modules[name] = module
    spec.loader.exec_module(module)
    return module


class ListHandler(logging.Handler):

    def __init__(self):
        super().__init__(level=logging.DEBUG)
        self.records = []

    def emit(self, record):
        self.records.append((record.levelname, record.getMessage()))


def load_both(workdir):
    orig_path = os.path.join(workdir, 'asm_orig.py')
    source = subprocess.run(
        ['git', 'show', 'HEAD:bronzebeard/asm.py'],
        cwd=HERE, check=True, stdout=subprocess.PIPE).stdout
    with open(orig_path, 'wb') as f:
        f.write(source)

    new_path = os.path.join(HERE, 'bronzebeard', 'asm.py')
    with open(new_path, 'rb') as f:
        if f.read() == source:
            print('WARNING: working tree asm.py is identical to HEAD (nothing to compare)')

    old = load_module('asm_orig', orig_path)
    new = load_module('asm_refactored', new_path)
    assert old is not new and old.__file__ != new.__file__

    for mod in (old, new):
        handler = ListHandler()
        mod.log.addHandler(handler)
        mod.log.setLevel(logging.DEBUG)
        mod.log.propagate = False
        mod._equiv_handler = handler
    return old, new


# --------------------------------------------------------------------------
# running one program through one module
# --------------------------------------------------------------------------

def line_key(line):
    if line is None:
        return None
    return (line.file, line.number, line.contents, getattr(line, 'include_path', None))


def run(mod, source, compress=False, include_dirs=None, constants=None, labels=None):
    """Returns (outcome, messages, log) where only outcome must match exactly"""
    constants = dict(constants) if constants is not None else {}
    labels = dict(labels) if labels is not None else {}
    mod._equiv_handler.records = []
    messages = None
    try:
        program = mod.assemble(source, constants=constants, labels=labels,
                               compress=compress, include_dirs=include_dirs)
        outcome = ('ok', type(program).__name__, bytes(program))
    except Exception as e:
        if type(e).__name__ == 'AssemblerError':
            assert type(e) is mod.AssemblerError
            outcome = ('refused', 'AssemblerError', line_key(e.line))
            messages = e.message
        else:
            outcome = ('crashed', type(e).__module__ + '.' + type(e).__name__, None)
            messages = str(e)
    def by_key(pair):
        return (type(pair[0]).__name__, str(pair[0]))   # values may be too long for repr()
    outcome += (sorted(labels.items(), key=by_key), sorted(constants.items(), key=by_key),
                list(labels), list(constants))
    return outcome, messages, list(mod._equiv_handler.records)


class Tally:

    def __init__(self, strict_messages):
        self.strict_messages = strict_messages
        self.cases = 0
        self.ok = 0
        self.refused = 0
        self.crashed = 0
        self.crash_types = {}
        self.mismatches = []
        self.message_diffs = []

    def compare(self, old, new, what, source, **kwargs):
        self.cases += 1
        a = run(old, source, **kwargs)
        b = run(new, source, **kwargs)
        kind = a[0][0]
        if kind == 'ok':
            self.ok += 1
        elif kind == 'refused':
            self.refused += 1
        else:
            self.crashed += 1
            self.crash_types[a[0][1]] = self.crash_types.get(a[0][1], 0) + 1
        if a[0] != b[0]:
            self.mismatches.append((what, source, kwargs, a[0], b[0]))
        elif a[2] != b[2]:
            # log text == str() of the items: part of the behaviour we keep
            diff = next(((x, y) for x, y in zip(a[2], b[2]) if x != y), (len(a[2]), len(b[2])))
            self.mismatches.append((what + ' [log stream]', source, kwargs, diff[0], diff[1]))
        elif a[1] != b[1]:
            self.message_diffs.append((what, source, a[1], b[1]))
        return a[0]

    def check(self, cond, what, detail=''):
        self.cases += 1
        if not cond:
            self.mismatches.append((what, detail, {}, None, None))

    def report(self):
        print('cases compared      : {}'.format(self.cases))
        print('  assembled         : {}'.format(self.ok))
        print('  refused (AsmError): {}'.format(self.refused))
        print('  crashed (other)   : {} {}'.format(self.crashed, self.crash_types))
        print('message-only diffs  : {}'.format(len(self.message_diffs)))
        for what, source, a, b in self.message_diffs[:10]:
            print('  - {}: {!r}\n      old: {!r}\n      new: {!r}'.format(what, source, a, b))
        print('MISMATCHES          : {}'.format(len(self.mismatches)))
        for what, source, kwargs, a, b in self.mismatches[:20]:
            print('  - {} {}'.format(what, kwargs))
            print('      source: {!r}'.format(source))
            print('      old   : {!r}'.format(a))
            print('      new   : {!r}'.format(b))
        failed = bool(self.mismatches) or (self.strict_messages and bool(self.message_diffs))
        print('RESULT: {}'.format('DIFFERENT' if failed else 'EQUIVALENT'))
        return 1 if failed else 0


# --------------------------------------------------------------------------
# random program generator
# --------------------------------------------------------------------------

REG_NAMES = (['x{}'.format(i) for i in range(32)]
             + ['zero', 'ra', 'sp', 'gp', 'tp', 't0', 't1', 't2', 's0', 'fp', 's1',
                'a0', 'a1', 'a2', 'a3', 'a4', 'a5', 'a6', 'a7', 's2', 's3', 's11', 't3', 't6'])
CREGS = ['x8', 'x9', 'x10', 'x11', 'x12', 'x13', 'x14', 'x15', 's0', 's1', 'a0', 'a5']
BAD_REGS = ['x32', 'foo', 'q1', 'x-1', '32', '99', '-1', 'X5x', '0x20', '', 'a8', 'sp2', '1.5']
NUMERIC_REGS = ['0', '1', '5', '8', '15', '31', '0x5', '0b101', '0o7', '0x1f']

SEQ_BOUNDS = {
    'bytes': 8, 'shorts': 16, 'ints': 32, 'longs': 32, 'longlongs': 64,
}
SHORT_BOUNDS = {'db': 8, 'dh': 16, 'dw': 32, 'dd': 64}

PACK_FORMATS = [
    '<B', '<b', '<H', '<h', '<I', '<i', '<L', '<l', '<Q', '<q',
    '>B', '>H', '>h', '>I', '>i', '>Q', '>q', '!I', '!H', '=I', '=Q', '@I', '@B', 'I', 'B', 'H', 'Q', 'q', 'b',
    '<f', '<d', '<e', '>f', '>d', 'f', 'd', 'e',
    '<?', '?', '<c', '<s', '<p', '<x', 'x', '<4s', '<1B', '<2B', '<BB', '<BH', '<0B', '<0I', '<xB', '<Bx',
    '<3x', '<xxH', '', '<', '>', '!', '@', '=', '<P', 'P', '<n', 'n', 'N', '<N', 'z', '<z', '<<B', 'B<',
    '<9999999999999999999999B', '<-1B', '<b ', 'é', '<é', '<B#c', '<I;', '1', '12', '<1', 'l', 'L',
    '<IB', '<II', '<h0h', '<0s', '<1s', '<1p', '<1c', '%', '<%', '$', '"<B"', "'<B'", '<B,', '(', '<B)',
]

ESCAPES = ['\\n', '\\t', '\\r', '\\0', '\\\\', '\\"', "\\'", '\\x41', '\\x7f', '\\x80', '\\xff', '\\101',
           '\\u00e9', '\\u20ac', '\\U0001F600', '\\ud800', '\\udfff', '\\N{BULLET}', '\\a', '\\q', '\\x4',
           '\\u12', '\\', '\\8', '\\777']
TEXTS = ['hello', 'Hello, World!', 'é', 'naïve café', '日本語', 'emoji 😀 ok', 'Ω≈ç√', 'tab\there', ' ',
         '  lead', 'trail  ', '# not a comment', 'a # b', 'x = 5', 'label:', '"quoted"', "it's", '\u00ff',
         '\u0100', '\u07ff', '\u0800', '\uffff', '\U00010000', 'ÿ\\xff', 'string string', '(paren)', ',,,']

R_NAMES = ['slli', 'srli', 'srai', 'add', 'sub', 'sll', 'slt', 'sltu', 'xor', 'srl', 'sra', 'or', 'and',
           'mul', 'mulh', 'mulhsu', 'mulhu', 'div', 'divu', 'rem', 'remu']
I_NAMES = ['addi', 'slti', 'sltiu', 'xori', 'ori', 'andi']
LOAD_NAMES = ['lb', 'lh', 'lw', 'lbu', 'lhu', 'jalr']
CSR_NAMES = ['csrrw', 'csrrs', 'csrrc', 'csrrwi', 'csrrsi', 'csrrci']
S_NAMES = ['sb', 'sh', 'sw']
B_NAMES = ['beq', 'bne', 'blt', 'bge', 'bltu', 'bgeu']
A_NAMES = ['sc.w', 'amoswap.w', 'amoadd.w', 'amoxor.w', 'amoand.w', 'amoor.w', 'amomin.w', 'amomax.w',
           'amominu.w', 'amomaxu.w']
PSEUDO_2 = ['mv', 'not', 'neg', 'seqz', 'snez', 'sltz', 'sgtz']
PSEUDO_BZ = ['beqz', 'bnez', 'blez', 'bgez', 'bltz', 'bgtz']
PSEUDO_B = ['bgt', 'ble', 'bgtu', 'bleu']


class Gen:

    def __init__(self, rng):
        self.rng = rng
        self.labels = []
        self.consts = []       # names of (probably) defined integer constants
        self.reg_consts = []   # names of constants meant to be used as registers
        self.n = 0

    # -- small pieces ------------------------------------------------------

    def pick(self, seq):
        return self.rng.choice(seq)

    def chance(self, p):
        return self.rng.random() < p

    def case(self, word):
        r = self.rng.random()
        if r < 0.85:
            return word
        if r < 0.93:
            return word.upper()
        return word.capitalize()

    def fresh(self, prefix):
        self.n += 1
        return '{}{}'.format(prefix, self.n)

    def int_literal(self, value):
        r = self.rng.random()
        if r < 0.55:
            return str(value)
        sign = '-' if value < 0 else ''
        mag = abs(value)
        if r < 0.75:
            return '{}0x{:x}'.format(sign, mag)
        if r < 0.82:
            return '{}0X{:X}'.format(sign, mag)
        if r < 0.88:
            return '{}0b{:b}'.format(sign, mag)
        if r < 0.93:
            return '{}0o{:o}'.format(sign, mag)
        if r < 0.97 and mag >= 1000:
            return '{}{:,}'.format(sign, mag).replace(',', '_')
        return '+{}'.format(mag) if value >= 0 else str(value)

    def bounded_value(self, bits):
        """in-range, boundary and out-of-range values for a field of the given width"""
        r = self.rng.random()
        umax = 2**bits - 1
        smin = -2**(bits - 1)
        if r < 0.30:
            return self.rng.randint(0, umax)
        if r < 0.45:
            return self.rng.randint(smin, -1)
        if r < 0.75:
            return self.pick([0, 1, -1, umax, umax - 1, smin, smin + 1, 2**(bits - 1) - 1, 2**(bits - 1)])
        if r < 0.90:
            return self.pick([umax + 1, umax + 2, smin - 1, smin - 2, 2 * umax, 2 * smin])
        return self.pick([2**64, 2**64 - 1, -2**63 - 1, 2**100, -2**100, 2**32, -2**31 - 1, 256, -129, 65536])

    def bad_int_token(self):
        return self.pick(['abc', '1.5', '08', '0x', '--1', '1e3', '0b2', "'a'", '1+1', 'x1', '_1', '1_', '0xg',
                          '1__0', '١٢', '²', 'foo', '-', '+', '0b', '0o8', '%hi'])

    def reg(self, compressed=False):
        r = self.rng.random()
        if self.reg_consts and r < 0.25:
            return self.pick(self.reg_consts)
        if r < 0.31:
            return self.pick(BAD_REGS)
        if r < 0.40:
            return self.pick(NUMERIC_REGS)
        if compressed and r < 0.9:
            return self.pick(CREGS)
        name = self.pick(REG_NAMES)
        return name.upper() if self.chance(0.03) else name

    def expr(self, bits=12, signed=True):
        """an immediate expression (mostly well-formed)"""
        r = self.rng.random()
        if r < 0.40:
            lo, hi = (-2**(bits - 1), 2**(bits - 1) - 1) if signed else (0, 2**bits - 1)
            q = self.rng.random()
            if q < 0.6:
                return self.int_literal(self.rng.randint(lo, hi))
            if q < 0.85:
                return self.int_literal(self.pick([lo, hi, 0, 1, -1, lo + 1, hi - 1]))
            return self.int_literal(self.pick([lo - 1, hi + 1, 2 * hi + 2, 2 * lo - 2, 2**32, -2**32, 2**40]))
        if r < 0.55 and self.consts:
            c = self.pick(self.consts)
            return self.pick([c, '{} + 1'.format(c), '{} * 2'.format(c), '({} >> 1)'.format(c),
                              '{} & 0xff'.format(c), '-{}'.format(c), '~{}'.format(c)])
        if r < 0.65 and self.labels:
            lab = self.pick(self.labels)
            return self.pick(['%offset({})'.format(lab), '%offset {}'.format(lab), lab,
                              '%position({}, 0)'.format(lab), '%position {} 4'.format(lab),
                              '%lo({})'.format(lab), '%hi({})'.format(lab),
                              '%lo(%position({}, 0))'.format(lab), '%hi(%offset({}))'.format(lab)])
        if r < 0.75:
            return self.pick(["'a'", "'Z'", "'\\n'", "'\\0'", "' '", "'é'", "'ab'", "''", "'\\x41'"])
        if r < 0.82:
            v = self.rng.randint(0, 2**32 - 1)
            return self.pick(['%hi({})', '%lo({})', '%hi {}', '%lo {}', '%hi(%lo({}))', '%HI({})']).format(
                self.int_literal(v))
        if r < 0.90:
            return self.pick(['1 + 2', '3 * 4 - 1', '1 << 4', '0xff & 0x0f', '7 // 2', '7 / 2', '2 ** 3', '10 % 3',
                              '(1 + 2) * 3', '1 +', '* 2', 'undefined_name', '1.5', '1 if 1 else 2', '[1]', '"s"',
                              'None', 'True', '1 == 1', '()', '1 / 0', 'x1', 'zero + 1', 'sp', '2 ** 70', '-(5)',
                              '0 - 1', '~0', '1e3', '1_0', '0x_ff', 'a b', '1 2', '__import__("os")', 'len'])
        return self.int_literal(self.bounded_value(bits))

    # -- lines -------------------------------------------------------------

    def line_label(self):
        name = self.fresh('L')
        if self.chance(0.1) and self.labels:
            name = self.pick(self.labels)   # duplicate label
        self.labels.append(name)
        return '{}:'.format(name)

    def line_constant(self):
        r = self.rng.random()
        if r < 0.30:
            # register alias (value 0 included!)
            name = self.fresh('R')
            value = self.pick(['0', '0', '0x0', 'zero', 'x0', '1', '2', '5', '8', '9', '10', '15', '16', '31', '32',
                               '-1', 'x8', 'a0', 's1', 't0 + 1', '8 + 2', '40', 'sp', '0b1000'])
            self.reg_consts.append(name)
            self.consts.append(name)
            return '{} = {}'.format(name, value)
        if r < 0.42:
            # names that must be refused (or are suspicious)
            name = self.pick(['x1', 'zero', 'sp', 'a0', '5', '0x10', '0', 'fp', '31', '0b1', 't6', 'X1', 'ZERO',
                              '1x', '-1', '08', 'x32', 'é', 'λ', 'pack', 'db', 'string'])
            return '{} = {}'.format(name, self.expr(32))
        name = self.fresh('K')
        if self.chance(0.1) and self.consts:
            name = self.pick(self.consts)   # redefinition
        value = self.expr(32)
        self.consts.append(name)
        return '{} = {}'.format(name, value)

    def line_sequence(self):
        name = self.pick(list(SEQ_BOUNDS))
        bits = SEQ_BOUNDS[name]
        count = self.pick([0, 1, 1, 2, 3, 4, 8, 17, 20])
        values = [self.int_literal(self.bounded_value(bits)) if self.chance(0.85)
                  else self.int_literal(self.rng.randint(0, 2**bits - 1)) for _ in range(count)]
        if self.chance(0.12):
            values.insert(self.rng.randint(0, len(values)), self.bad_int_token())
        if self.chance(0.05) and self.consts:
            values.append(self.pick(self.consts))   # constants are not allowed here
        sep = self.pick([' ', ' ', ', ', ',', '  '])
        return '{} {}'.format(self.case(name), sep.join(values)).rstrip()

    def line_shorthand(self):
        name = self.pick(list(SHORT_BOUNDS))
        bits = SHORT_BOUNDS[name]
        r = self.rng.random()
        if r < 0.6:
            operand = self.int_literal(self.bounded_value(bits))
        elif r < 0.95:
            operand = self.expr(bits, signed=self.chance(0.5))
        else:
            operand = ''
        word = name if self.chance(0.93) else self.pick([name.upper(), name.capitalize()])
        return '{} {}'.format(word, operand).rstrip()

    def line_pack(self):
        fmt = self.pick(PACK_FORMATS)
        r = self.rng.random()
        if r < 0.5:
            operand = self.int_literal(self.bounded_value(self.pick([8, 16, 32, 64])))
        elif r < 0.6:
            operand = self.pick(['0', '1', '-1', '255', '256', '65535', '65536', '2**31', '2**32', '2**63', '2**64',
                                 '10**38', '10**39', '10**308', '10**309', '10**400', '65504', '65520', '70000',
                                 '-65520', '-10**39', '2**127', '2**128', '2**1024'])
        elif r < 0.95:
            operand = self.expr(32)
        else:
            operand = ''
        return '{} {} {}'.format(self.case('pack'), fmt, operand).rstrip()

    def line_string(self):
        parts = []
        for _ in range(self.pick([0, 1, 1, 2, 3, 5])):
            parts.append(self.pick(TEXTS) if self.chance(0.6) else self.pick(ESCAPES))
        text = ''.join(parts)
        lead = self.pick(['', '', '', '  ', '\t'])
        word = self.case('string')
        if self.chance(0.04):
            return lead + word                 # no operand at all
        return '{}{} {}'.format(lead, word, text)

    def line_align(self):
        v = self.pick(['1', '2', '4', '4', '8', '16', '32', '3', '5', '0', '-4', '0x10', 'abc', '4 4', '', '0b100',
                       '1.5', 'K1', '64', '256'])
        return '{} {}'.format(self.case('align'), v).rstrip()

    def target(self):
        r = self.rng.random()
        if self.labels and r < 0.6:
            return self.pick(self.labels)
        if r < 0.75:
            return self.fresh('L')     # maybe defined later (we add it to the pool), maybe never
        if r < 0.9:
            return self.int_literal(self.pick([0, 2, 4, -4, 8, 16, -16, 4094, 4096, -4096, 3, 1, 2**20, 2**21,
                                               -2**20, 1048574, 254, 256, -256, 2046, 2048, -2048]))
        return self.pick(['undefined_label', 'x1', '%offset(L1)', ''])

    def line_instruction(self):
        r = self.rng.random()
        g = self
        sep = self.pick([', ', ', ', ' ', ','])

        def join(name, *ops):
            return '{} {}'.format(g.case(name), sep.join(ops)).rstrip()

        if r < 0.12:
            name = self.pick(R_NAMES)
            ops = [self.reg(), self.reg(), self.reg()]
            if name in ('slli', 'srli', 'srai') and self.chance(0.7):
                ops[2] = self.pick(['0', '1', '5', '31', '32', '0x1f', '-1'] + self.reg_consts)
            if self.chance(0.05):
                ops = ops[:self.pick([0, 1, 2])] if self.chance(0.5) else ops + [self.reg()]
            return join(name, *ops)
        if r < 0.24:
            name = self.pick(I_NAMES)
            return join(name, self.reg(), self.reg(), self.expr(12))
        if r < 0.32:
            name = self.pick(LOAD_NAMES)
            if self.chance(0.5):
                return '{} {}{}{}({})'.format(self.case(name), self.reg(), sep, self.expr(12), self.reg())
            if name == 'jalr' and self.chance(0.3):
                return join(name, self.reg())
            return join(name, self.reg(), self.reg(), self.expr(12))
        if r < 0.36:
            name = self.pick(CSR_NAMES)
            return join(name, self.reg(), self.reg(), self.expr(12, signed=self.chance(0.5)))
        if r < 0.42:
            name = self.pick(S_NAMES)
            if self.chance(0.5):
                return '{} {}{}{}({})'.format(self.case(name), self.reg(), sep, self.expr(12), self.reg())
            return join(name, self.reg(), self.reg(), self.expr(12))
        if r < 0.50:
            name = self.pick(B_NAMES + PSEUDO_B)
            return join(name, self.reg(), self.reg(), self.target())
        if r < 0.55:
            name = self.pick(['lui', 'auipc'])
            return join(name, self.reg(), self.expr(20, signed=self.chance(0.5)))
        if r < 0.60:
            if self.chance(0.5):
                return join('jal', self.reg(), self.target())
            return join(self.pick(['jal', 'j', 'call', 'tail']), self.target())
        if r < 0.64:
            return self.pick([
                'fence', 'fence rw, rw', 'fence iorw iorw', 'fence w, r', 'fence xyz, rw', 'fence 0, 0',
                'fence rw', 'fence.i', 'ecall', 'ebreak', 'ECALL', 'ecall x1', 'nop', 'ret', 'NOP', 'ret x1',
                'c.nop', 'c.ebreak', 'c.nop 1', 'fence i, o', 'fence 15, 15', 'fence 16, 1', 'fence rw, RW',
            ])
        if r < 0.69:
            name = self.pick(A_NAMES)
            ops = [self.reg(), self.reg(), self.reg()]
            if self.chance(0.4):
                ops += [self.pick(['0', '1', '1', '2', '-1', 'x']), self.pick(['0', '1', '1', '2'])]
            elif self.chance(0.1):
                ops += ['1']
            return join(name, *ops)
        if r < 0.72:
            ops = [self.reg(), self.reg()]
            if self.chance(0.4):
                ops += [self.pick(['0', '1', '2']), self.pick(['0', '1', '3'])]
            return join('lr.w', *ops)
        if r < 0.78:
            name = self.pick(PSEUDO_2)
            return join(name, self.reg(), self.reg())
        if r < 0.82:
            return join(self.pick(PSEUDO_BZ), self.reg(), self.target())
        if r < 0.88:
            v = self.pick([0, 1, -1, 31, -32, 32, 2047, 2048, -2048, -2049, 4096, 0x12345678, 0x7ffff800,
                           0x7fffffff, 0x80000000, 0xffffffff, -2**31, 2**32, 0xfff, 0x800, 0xdeadbeef,
                           0x10000000, 0x12345000])
            operand = self.int_literal(v) if self.chance(0.7) else self.expr(32)
            return join('li', self.reg(), operand)
        if r < 0.90:
            return join(self.pick(['jr', 'jalr']), self.reg())
        # explicit compressed instructions
        c = self.rng.random()
        if c < 0.15:
            return join(self.pick(['c.mv', 'c.add', 'c.sub', 'c.xor', 'c.or', 'c.and']),
                        self.reg(True), self.reg(True))
        if c < 0.40:
            return join(self.pick(['c.addi', 'c.li', 'c.lui', 'c.slli', 'c.lwsp', 'c.srli', 'c.srai', 'c.andi']),
                        self.reg(True), self.expr(6, signed=self.chance(0.6)))
        if c < 0.50:
            return join(self.pick(['c.addi16sp', 'c.jal', 'c.j']),
                        self.pick([self.expr(10), self.target()]))
        if c < 0.58:
            return join(self.pick(['c.jr', 'c.jalr']), self.reg(True))
        if c < 0.66:
            return join(self.pick(['c.swsp', 'c.addi4spn']), self.reg(True), self.expr(8, signed=False))
        if c < 0.85:
            name = self.pick(['c.lw', 'c.sw'])
            off = self.pick(['0', '4', '8', '64', '124', '128', '2', '-4', '3'])
            if self.chance(0.5):
                return '{} {}{}{}({})'.format(name, self.reg(True), sep, off, self.reg(True))
            return join(name, self.reg(True), self.reg(True), off)
        return join(self.pick(['c.beqz', 'c.bnez']), self.reg(True), self.target())

    def line_misc(self):
        return self.pick([
            '', '   ', '# just a comment', 'addi x1, x1, 1  # trailing comment', 'error stop here',
            'error  with \\t escape', 'bogus x1, x2', 'x =', '= 5', 'a = = 5', 'foo bar baz', ':', '::',
            'L1: addi x1 x1 1', 'include', 'include_bytes', 'include nothing.asm', 'include_bytes nothing.bin',
            '  include_bytes nothing.bin 5', 'INCLUDE_BYTES nothing.bin', 'include_bytes a b', '%hi(5)',
            'bytes', 'shorts', 'db', 'pack', 'pack <I', 'align', 'string', 'li', 'li x1', 'mv x1', 'nop nop',
            'db 1 2', 'db 1, 2', 'dw (1 + 2) * 3', 'dd -(1)', 'dh 0xffff + 1', 'db -0', 'db - 1', 'bytes -0',
            'bytes 0 -0 +0', 'ints 0xffffffff -0x80000000', 'ints 0x100000000', 'longs -0x80000001',
        ])

    def program(self):
        weights = [
            (self.line_label, 8), (self.line_constant, 12), (self.line_sequence, 12), (self.line_shorthand, 12),
            (self.line_pack, 12), (self.line_string, 8), (self.line_align, 5), (self.line_instruction, 28),
            (self.line_misc, 3),
        ]
        funcs = [f for f, w in weights for _ in range(w)]
        lines = []
        for _ in range(self.rng.randint(1, 14)):
            lines.append(self.pick(funcs)())
        # define some of the forward-referenced labels at the end
        if self.chance(0.5):
            for i in range(1, self.n + 1):
                lab = 'L{}'.format(i)
                if lab not in self.labels and self.chance(0.7):
                    lines.append(lab + ':')
                    lines.append(self.pick(['nop', 'ret', 'db 0', 'align 4']))
        return '\n'.join(lines)


class CleanGen(Gen):
    """Same generator with (nearly) all deliberate faults switched off, so that
    most programs reach the back-end passes instead of dying in the front-end"""

    def reg(self, compressed=False):
        if self.reg_consts and self.chance(0.3):
            return self.pick(self.reg_consts)
        if compressed:
            return self.pick(CREGS)
        return self.pick(REG_NAMES)

    def bad_int_token(self):
        return '7'

    def case(self, word):
        return word

    def bounded_value(self, bits):
        r = self.rng.random()
        if r < 0.5:
            return self.rng.randint(-2**(bits - 1), 2**bits - 1)
        return self.pick([0, 1, -1, 2**bits - 1, -2**(bits - 1), 2**(bits - 1) - 1, 2**(bits - 1)])

    def expr(self, bits=12, signed=True):
        lo, hi = (-2**(bits - 1), 2**(bits - 1) - 1) if signed else (0, 2**bits - 1)
        r = self.rng.random()
        if r < 0.7 or not self.consts:
            return self.int_literal(self.pick([lo, hi, 0, 1, self.rng.randint(lo, hi), self.rng.randint(lo, hi)]))
        return self.pick(self.consts)

    def line_constant(self):
        if self.chance(0.5):
            name = self.fresh('R')
            self.reg_consts.append(name)
            return '{} = {}'.format(name, self.pick(['0', '0', '8', '9', '10', '15', 'x8', 'zero', 'a0', '1', '2']))
        name = self.fresh('K')
        self.consts.append(name)
        return '{} = {}'.format(name, self.int_literal(self.rng.randint(-2048, 2047)))

    def line_misc(self):
        return self.pick(['', '# comment', 'nop', 'ret', 'ecall'])

    def line_align(self):
        return 'align {}'.format(self.pick(['1', '2', '4', '4', '8', '16', '3', '0x10']))

    def line_string(self):
        good = [e for e in ESCAPES if e not in ('\\ud800', '\\udfff', '\\x4', '\\u12', '\\', '\\N{BULLET}')]
        parts = [self.pick(TEXTS) if self.chance(0.6) else self.pick(good) for _ in range(self.pick([1, 2, 3]))]
        return 'string {}'.format(''.join(parts))

    def line_shorthand(self):
        name = self.pick(list(SHORT_BOUNDS))
        bits = SHORT_BOUNDS[name]
        if self.chance(0.7):
            return '{} {}'.format(name, self.int_literal(self.bounded_value(bits)))
        return '{} {}'.format(name, self.expr(bits, signed=self.chance(0.5)))

    def target(self):
        if self.labels and self.chance(0.8):
            return self.pick(self.labels)
        return self.fresh('L')

    def line_pack(self):
        fmt = self.pick(PACK_FORMATS[:30] + ['<f', '<d', '<e', '<?', '<xB', '<Bx'])
        return 'pack {} {}'.format(fmt, self.int_literal(self.bounded_value(self.pick([8, 16, 32, 64]))))

    def program(self):
        text = super().program()
        missing = ['L{}:'.format(i) for i in range(1, self.n + 1) if 'L{}'.format(i) not in self.labels]
        return text + '\n' + '\n'.join(missing) + '\nnop'


# --------------------------------------------------------------------------
# the individual checks
# --------------------------------------------------------------------------

def check_random_programs(tally, old, new, count):
    rng = random.Random(SEED)
    for i in range(count):
        gen_cls = CleanGen if i % 3 == 0 else Gen
        source = gen_cls(rng).program()
        preset = None
        if rng.random() < 0.1:
            preset = {'K1': 7, 'R1': 0, 'PRESET': 0, 'R2': 9}
        for compress in (False, True):
            tally.compare(old, new, 'random #{} compress={}'.format(i, compress), source,
                          compress=compress, constants=preset)


def check_targeted_programs(tally, old, new):
    """hand-picked programs, one interesting thing per line"""
    rng = random.Random(SEED + 1)
    g = Gen(rng)
    sources = []

    # every sequence keyword x every boundary, alone on a line
    for name, bits in SEQ_BOUNDS.items():
        for v in [0, 1, -1, 2**bits - 1, 2**bits, -2**(bits - 1), -2**(bits - 1) - 1, 2**(bits - 1), 2**(bits - 1) - 1,
                  2**64, -2**63 - 1, 2**200]:
            for lit in {str(v), hex(v), bin(v), oct(v)}:
                sources.append('{} {}'.format(name, lit))
                sources.append('{} 1 {} 2'.format(name, lit))
        sources.append(name)
        sources.append('{} 1 2 x 4'.format(name))
        sources.append('{} 999999999999999999999 x'.format(name))   # which error is reported first?
        sources.append('{} 1, 2, 3'.format(name.upper()))
    for name, bits in SHORT_BOUNDS.items():
        for v in [0, 1, -1, 2**bits - 1, 2**bits, -2**(bits - 1), -2**(bits - 1) - 1, 2**(bits - 1), 2**64, 2**200]:
            sources.append('{} {}'.format(name, v))
            sources.append('V = {}\n{} V'.format(v, name))
            sources.append('{} {}'.format(name.upper(), v))
        sources.append('here:\n{} here\n{} %offset(here)\n{} %position(here, 1)'.format(name, name, name))
        sources.append('{} %hi(0x12345678)\n{} %lo(0x12345fff)'.format(name, name))
    for fmt in PACK_FORMATS:
        for v in ['0', '1', '-1', '255', '256', '-129', '65536', '2**32', '-2**31 - 1', '2**64', '10**39', '10**400',
                  '65520', "'a'"]:
            sources.append('pack {} {}'.format(fmt, v))
        sources.append('pack {}'.format(fmt))
        sources.append('start:\npack {} 5\nend:\nN = 3\ndb end - start'.format(fmt))
    # register aliases, value 0 in particular
    for value in ['0', 'zero', 'x0', '1', '8', '15', '16', '31', '32', '-1', '2 - 2', 'x8 - 8']:
        for use in ['addi R, R, 1', 'add R R R', 'slli x1 x1 R', 'c.addi R 1', 'c.mv R R', 'mv R, R', 'li R 5',
                    'li R 0x12345678', 'lw R, 0(R)', 'sw R, 4(R)', 'c.lw R 0(R)', 'beq R, R, here', 'beqz R here',
                    'jal R here', 'jalr R', 'jr R', 'lr.w R R', 'amoadd.w R R R', 'amoadd.w R R R 1 1',
                    'neg R R', 'lui R 1', 'c.jr R', 'c.swsp R 4', 'c.beqz R here', 'csrrw R, 0x300, R']:
            sources.append('R = {}\nhere:\n{}'.format(value, use))
            sources.append('here:\n{}\nR = {}'.format(use, value))      # alias defined after use
            sources.append('R = {}\nS = R\nhere:\n{}'.format(value, use.replace('R', 'S')))
    # constants
    for name in ['x1', 'zero', '5', '0x10', '0', 'fp', 'ok', 'OK', '_', 'é', 'x32', 'X1']:
        for value in ['0', '5', '-1', '%hi(5)', '%lo(5)', '%offset(x)', '%position(x, 1)', '1 +', 'nope', '1.5',
                      "'a'", "'ab'", '2 ** 70', 'ok2']:
            sources.append('{} = {}'.format(name, value))
            sources.append('ok2 = 0\n{} = {}\ndb ok2'.format(name, value))
    # strings
    for text in TEXTS + ESCAPES:
        sources.append('string {}'.format(text))
        sources.append('a:\nstring {}\nb:\ndb b - a'.format(text))
        sources.append('  STRING {}{}'.format(text, text))
    # aligns
    for a in ['1', '2', '4', '8', '3', '0', '-4', '16', '0x20']:
        for pre in ['', 'db 1', 'dh 1', 'db 1\ndb 2\ndb 3', 'dw 1', 'string abcde']:
            sources.append('{}\nalign {}\nafter:\ndb after'.format(pre, a))
    # instructions: every name with plausible and implausible operands
    for name in R_NAMES + A_NAMES:
        for ops in ['x1, x2, x3', 'x0 x0 x0', 'x31 x31 x31', 'x32 x1 x1', 'x1 x1', 'a0 a1 foo', '8 9 10']:
            sources.append('{} {}'.format(name, ops))
    for name in I_NAMES + LOAD_NAMES + CSR_NAMES + S_NAMES:
        for ops in ['x1, x2, 0', 'x1 x2 2047', 'x1 x2 -2048', 'x1 x2 2048', 'x1 x2 -2049', 'x1 x2 4095', 'x1 x2 4096',
                    'x1, 4(x2)', 'x1, -4(x2)', 'x1, 2048(x2)', 'x1 x2', 'x1', 'x1 x2 %lo(0x12345fff)', 'x99 x2 0',
                    'x8 x9 4', 'x8, 4(x9)', 'x8 x8 1', 'x8 x8 -32', 'x8 x8 31', 'x8 x8 32', 'x8 x0 5', 'x2 x2 16',
                    'x2 x2 -512', 'x8 x2 4', 'x8 x2 1020', 'x8 x2 1024', 'x8, 124(x9)', 'x8, 128(x9)', 'x1 x0 0']:
            sources.append('{} {}'.format(name, ops))
    for name in B_NAMES + PSEUDO_B:
        for ops in ['x1 x2 t', 'x1 x2 4', 'x1 x2 4094', 'x1 x2 4096', 'x1 x2 -4096', 'x1 x2 -4098', 'x1 x2 3',
                    'x8 x0 t', 'x0 x8 t', 'x1 x2', 'x1 x2 nope']:
            sources.append('t:\n{} {}'.format(name, ops))
            sources.append('{} {}\nt:'.format(name, ops))
    for line in ['lui x1 0', 'lui x1 0xfffff', 'lui x1 0x100000', 'lui x1 -1', 'lui x1 -524288', 'lui x1 -524289',
                 'lui x8 1', 'lui x8 31', 'lui x8 32', 'lui x2 1', 'lui x0 1', 'auipc x1 1', 'lui x1 %hi(0x12345fff)',
                 'jal x1 t', 'jal x0 t', 'jal t', 'j t', 'call t', 'tail t', 'jal x1 1048574', 'jal x1 1048576',
                 'jal x1 -1048576', 'jal x1 -1048578', 'jal x1 3', 'jal x5 t', 'jalr x1', 'jalr x0 x1 0', 'jr x1',
                 'jalr x1 x1 0', 'jalr x1 x1 4', 'ret', 'c.j t', 'c.jal t', 'c.j 2046', 'c.j 2048', 'c.j -2048',
                 'c.j -2050', 'c.j 3', 'c.beqz x8 t', 'c.bnez x8 254', 'c.bnez x8 256', 'c.beqz x1 t',
                 'c.addi16sp 16', 'c.addi16sp 0', 'c.addi16sp 8', 'c.addi16sp 496', 'c.addi16sp 512',
                 'c.addi16sp -512', 'c.addi16sp -528', 'c.addi4spn x8 4', 'c.addi4spn x8 0', 'c.addi4spn x8 1020',
                 'c.addi4spn x8 1024', 'c.addi4spn x1 4', 'c.lui x8 0', 'c.lui x2 1', 'c.lui x0 1', 'c.lui x8 31',
                 'c.lui x8 32', 'c.lui x8 63', 'c.lui x8 64', 'c.slli x8 0', 'c.slli x8 31', 'c.slli x8 32',
                 'c.srli x8 1', 'c.srli x8 32', 'c.srli x1 1', 'c.lwsp x8 0', 'c.lwsp x0 0', 'c.lwsp x8 252',
                 'c.lwsp x8 256', 'c.lwsp x8 2', 'c.swsp x8 252', 'c.swsp x8 256', 'c.mv x0 x1', 'c.mv x1 x0',
                 'c.add x1 x2', 'c.jr x0', 'c.jalr x0', 'c.jr x1', 'c.sub x8 x9', 'c.sub x1 x9', 'c.li x8 31',
                 'c.li x8 32', 'c.li x8 -32', 'c.li x8 -33', 'c.li x0 1', 'c.addi x8 0', 'c.addi x0 1',
                 'fence', 'fence rw, rw', 'fence iorw, iorw', 'fence x, y', 'fence 0 0', 'fence 15 15', 'fence 16 0',
                 'lr.w x1 x2', 'lr.w x1 x2 1 1', 'lr.w x1 x2 2 0', 'lr.w x1 x2 1', 'sc.w x1 x2 x3 0 1',
                 'sc.w x1 x2 x3 x 1', 'li x1 0', 'li x1 2047', 'li x1 2048', 'li x1 -2048', 'li x1 -2049',
                 'li x8 31', 'li x8 32', 'li x1 0xffffffff', 'li x1 0x100000000', 'li x1 0x7ffff800',
                 'li x1 -0x80000000', 'li x1 -0x80000001', 'li x0 5', 'li x1 t', 'li x1 %position(t, 0)',
                 'mv x1 x2', 'mv x0 x0', 'mv x8 x0', 'not x1 x2', 'neg x1 x2', 'seqz x1 x2', 'nop', 'ecall', 'ebreak',
                 'fence.i', 'c.nop', 'c.ebreak']:
        sources.append('t:\n' + line)
        sources.append(line + '\nalign 4\nt:\n' + line)
        sources.append('pad:\nbytes 1 2 3\nalign 2\n' + line + '\nt:\nstring x\n')

    # ints too long for str() (the digit limit of int -> str conversion), braces in pack formats
    huge_hex = '0x' + 'f' * 5000
    huge_dec = '9' * 5000
    for operand in [huge_hex, '-' + huge_hex, huge_dec, '10**5000', '-(10**5000)', '1 << 20000']:
        for head in ['pack <?', 'pack <B', 'pack <f', 'pack <d', 'pack <Q', 'db', 'dd', 'bytes', 'longlongs 1',
                     'K =', 'li x1', 'addi x1 x1']:
            sources.append('{} {}'.format(head, operand))
    for fmt in ['{}', '{0}', '<{}B', '{', '}', '<B{', '{e}', '%s', '{!r}']:
        sources.append('pack {} 5'.format(fmt))
        sources.append('pack {} 256'.format(fmt))

    for i, source in enumerate(sources):
        for compress in (False, True):
            tally.compare(old, new, 'targeted #{} compress={}'.format(i, compress), source, compress=compress)

    # caller-supplied constants / labels, including names that shadow registers (the
    # assembler refuses to *define* those, but does not refuse to be handed them)
    presets = [
        ({'x5': 99, 'sp': 0, 'ZERO': 0, 'A': 10}, {'far': 0x1000, 'x6': 8}),
        ({'zero': 7, 't0': 0, 5: 6, 'K': -1}, {}),
        ({}, {'start': 4, 'K': 12}),
    ]
    preset_sources = [
        'K = x5', 'K = sp + 1', 'K = zero\ndb K', 'K = t0\naddi K, K, 1', 'addi x5, sp, 1', 'addi ZERO, A, A',
        'add A A ZERO', 'c.addi A 1', 'li A far', 'j far', 'beq x5 x6 far', 'db far', 'dw far + x6', 'db K',
        'start:\nj start', 'K = 3\ndb K', 'mv ZERO, x5', 'db x5', 'db sp', 'A = 11\naddi A A A', 'lw A, 0(ZERO)',
        'pack <I far', 'pack <B ZERO', 'dd K', 'dh -K',
    ]
    for constants, labels in presets:
        for source in preset_sources:
            for compress in (False, True):
                tally.compare(old, new, 'preset constants/labels', source, compress=compress,
                              constants=constants, labels=labels)
    return len(sources) + len(presets) * len(preset_sources)


def check_include_trees(tally, old, new):
    rng = random.Random(SEED + 2)
    root = tempfile.mkdtemp(prefix='equiv_inc_')
    cwd = os.getcwd()
    try:
        os.makedirs(os.path.join(root, 'sub', 'deep'))
        os.makedirs(os.path.join(root, 'other'))
        os.makedirs(os.path.join(root, 'elsewhere'))
        blobs = {
            'empty.bin': b'',
            'one.bin': b'\x7f',
            'small.bin': bytes(range(5)),
            'sixteen.bin': bytes(range(16)),
            'seventeen.bin': bytes(range(17)),
            'big.bin': bytes(rng.randrange(256) for _ in range(1000)),
            os.path.join('sub', 'small.bin'): b'SUB!',           # same name, different content
            os.path.join('sub', 'only_sub.bin'): b'only-in-sub',
            os.path.join('sub', 'deep', 'deep.bin'): b'\xde\xe9',
            os.path.join('other', 'small.bin'): b'OTHER',
            os.path.join('other', 'only_other.bin'): b'\x00\xff' * 20,
            os.path.join('elsewhere', 'far.bin'): b'far away',
            'text.bin': 'é日本\n'.encode('utf-8'),
            'UPPER.BIN': b'upper',
        }
        for rel, data in blobs.items():
            with open(os.path.join(root, rel), 'wb') as f:
                f.write(data)

        asm_files = {
            'leaf.asm': 'leaf:\ninclude_bytes small.bin\nleaf_end:\n',
            os.path.join('sub', 'leaf.asm'): 'subleaf:\ninclude_bytes small.bin\ninclude_bytes only_sub.bin\n',
            os.path.join('sub', 'up.asm'): 'include_bytes deep/deep.bin\ninclude_bytes seventeen.bin\n',
            os.path.join('sub', 'chain.asm'): 'include leaf.asm\ninclude deep/d.asm\n',
            os.path.join('sub', 'deep', 'd.asm'): 'deep:\ninclude_bytes deep.bin\nD = 0\naddi D, D, 1\n',
            os.path.join('other', 'o.asm'): 'include_bytes only_other.bin\ninclude_bytes small.bin\n',
            'bad_size.asm': 'include_bytes missing.bin\n',
            'consts.asm': 'ZERO_REG = 0\nWIDTH = 4\n',
        }
        for rel, text in asm_files.items():
            with open(os.path.join(root, rel), 'w') as f:
                f.write(text)

        bins = ['empty.bin', 'one.bin', 'small.bin', 'sixteen.bin', 'seventeen.bin', 'big.bin', 'text.bin',
                'UPPER.BIN', 'upper.bin', 'sub/small.bin', 'sub/only_sub.bin', 'only_sub.bin', 'deep/deep.bin',
                'sub/deep/deep.bin', 'only_other.bin', 'far.bin', 'missing.bin', '../small.bin',
                os.path.join(root, 'small.bin'), 'sub', '.']
        incs = ['leaf.asm', 'sub/leaf.asm', 'sub/up.asm', 'sub/chain.asm', 'sub/deep/d.asm', 'other/o.asm', 'o.asm',
                'bad_size.asm', 'consts.asm', 'missing.asm', '"leaf.asm"', "'leaf.asm'", 'leaf.asm # comment']
        fillers = ['db 1', 'start:', 'end:', 'align 4', 'string hi', 'addi x1 x1 1', 'shorts 1 2', 'dw end',
                   'pack <H 7', 'nop', 'li a0 end', 'j start', 'ZERO = 0', 'add ZERO ZERO ZERO', 'bytes 0x100',
                   'db 256', 'pack <B 256']

        def random_main():
            lines = []
            for _ in range(rng.randint(1, 7)):
                r = rng.random()
                if r < 0.45:
                    word = rng.choice(['include_bytes', 'include_bytes', 'INCLUDE_BYTES', 'Include_Bytes'])
                    line = '{} {}'.format(word, rng.choice(bins))
                    if rng.random() < 0.06:
                        line = '  ' + line + ' ' + str(rng.choice([0, 4, 5]))   # bypasses the reader: path is None
                    if rng.random() < 0.05:
                        line += ' extra'
                    if rng.random() < 0.05:
                        line += '  # comment'
                    lines.append(line)
                elif r < 0.65:
                    lines.append('{} {}'.format(rng.choice(['include', 'include', 'INCLUDE']), rng.choice(incs)))
                else:
                    lines.append(rng.choice(fillers))
            return '\n'.join(lines) + '\n'

        include_dir_choices = [
            None, [], [os.path.join(root, 'sub')], [os.path.join(root, 'other'), os.path.join(root, 'sub')],
            [os.path.join(root, 'sub'), os.path.join(root, 'other')], [os.path.join(root, 'elsewhere')],
            [os.path.join(root, 'nonexistent')], [os.path.join(root, 'sub', 'deep'), root],
        ]

        n = 0
        for i in range(600):
            text = random_main()
            include_dirs = rng.choice(include_dir_choices)
            where = rng.choice(['', '', 'sub', 'other'])
            main_path = os.path.join(root, where, 'main_{}.asm'.format(i))
            with open(main_path, 'w') as f:
                f.write(text)
            for compress in (False, True):
                # as a file: includes are relative to the file's directory
                tally.compare(old, new, 'include tree #{} (file)'.format(i), main_path,
                              compress=compress, include_dirs=include_dirs)
            # as source text: includes are relative to the cwd
            os.chdir(os.path.join(root, rng.choice(['', 'sub', 'other'])))
            try:
                tally.compare(old, new, 'include tree #{} (source)'.format(i), text,
                              compress=False, include_dirs=include_dirs)
            finally:
                os.chdir(cwd)
            os.remove(main_path)
            n += 1

        # the "dark race condition": file changes size between the reader and the pass
        racy = os.path.join(root, 'racy.bin')
        for mod in (old, new):
            with open(racy, 'wb') as f:
                f.write(b'12345')
            real_getsize = os.path.getsize
            try:
                os.path.getsize = lambda p: real_getsize(p) + (1 if p.endswith('racy.bin') else 0)
                mod._racy = run(mod, 'db 1\ninclude_bytes racy.bin\n', include_dirs=[root])
            finally:
                os.path.getsize = real_getsize
        tally.check(old._racy[0] == new._racy[0] and old._racy[0][1] == 'builtins.AssertionError',
                    'include_bytes size race', (old._racy[0], new._racy[0]))

        # file removed between the reader and the pass
        for mod in (old, new):
            gone = os.path.join(root, 'gone.bin')
            with open(gone, 'wb') as f:
                f.write(b'abc')
            real_open = open
            import builtins

            def fake_open(path, *args, **kwargs):
                if isinstance(path, str) and path.endswith('gone.bin'):
                    raise FileNotFoundError(2, 'No such file or directory', path)
                return real_open(path, *args, **kwargs)
            try:
                builtins.open = fake_open
                mod._gone = run(mod, 'include_bytes gone.bin\n', include_dirs=[root])
            finally:
                builtins.open = real_open
        tally.check(old._gone[0] == new._gone[0] and old._gone[0][0] == 'crashed',
                    'include_bytes vanished file', (old._gone[0], new._gone[0]))
        return n
    finally:
        os.chdir(cwd)
        shutil.rmtree(root, ignore_errors=True)


ITEM_CLASSES = [
    'Item', 'Label', 'Constant', 'IncludeBytes', 'String', 'Sequence', 'Pack', 'ShorthandPack', 'Align', 'Blob',
    'Instruction', 'PseudoInstruction', 'RTypeInstruction', 'ITypeInstruction', 'IETypeInstruction',
    'STypeInstruction', 'BTypeInstruction', 'UTypeInstruction', 'JTypeInstruction', 'FenceInstruction',
    'ATypeInstruction', 'ALTypeInstruction', 'CompressedInstruction', 'CRTypeInstruction', 'CRJTypeInstruction',
    'CRETypeInstruction', 'CITypeInstruction', 'CIATypeInstruction', 'CINTypeInstruction', 'CSSTypeInstruction',
    'CIWTypeInstruction', 'CLTypeInstruction', 'CSTypeInstruction', 'CATypeInstruction', 'CBTypeInstruction',
    'CJTypeInstruction',
]

PASS_NAMES = [
    'resolve_constants', 'resolve_labels', 'resolve_register_aliases', 'transform_compressible',
    'transform_pseudo_instructions', 'resolve_aligns', 'resolve_immediates', 'resolve_instructions',
    'resolve_strings', 'resolve_sequences', 'transform_shorthand_packs', 'resolve_packs',
    'resolve_include_bytes', 'resolve_blobs', 'assemble', 'parse_item', 'lex_tokens', 'read_lines',
    'eval_immediate', 'log_conversion', 'log_constant',
]


def describe(obj):
    """repr / str / vars / size / args of an item, never raising"""
    out = [type(obj).__name__]
    for f in (repr, str):
        try:
            out.append(f(obj))
        except Exception as e:
            out.append('!' + type(e).__name__)
    try:
        out.append([(k, repr(v)) for k, v in vars(obj).items()])
    except Exception as e:
        out.append('!' + type(e).__name__)
    for meth in ('size', 'args'):
        try:
            attr = getattr(obj, meth)
            out.append(repr(attr()) if callable(attr) else 'attr:' + repr(attr))
        except Exception as e:
            out.append('!' + type(e).__name__ + (':' + repr(line_key(e.line)) if hasattr(e, 'line') else ''))
    return out


def check_classes(tally, old, new):
    rng = random.Random(SEED + 3)
    for name in ITEM_CLASSES:
        a, b = getattr(old, name), getattr(new, name)
        tally.check([c.__name__ for c in a.__mro__] == [c.__name__ for c in b.__mro__], 'mro of ' + name)
        tally.check(sorted(a.__abstractmethods__) == sorted(b.__abstractmethods__), 'abstract methods of ' + name,
                    (sorted(a.__abstractmethods__), sorted(b.__abstractmethods__)))
        tally.check(str(inspect.signature(a.__init__)) == str(inspect.signature(b.__init__)),
                    '__init__ signature of ' + name,
                    (str(inspect.signature(a.__init__)), str(inspect.signature(b.__init__))))
    for name in PASS_NAMES:
        a, b = getattr(old, name), getattr(new, name)
        tally.check(str(inspect.signature(a)) == str(inspect.signature(b)), 'signature of ' + name)

    values = [0, 1, -1, 'x1', 'zero', 'R', '', None, 5, 0x12345678, 'é', b'ab', (1, 2), 2**70, -2**70, 1.5, True]
    concrete = [n for n in ITEM_CLASSES if not getattr(old, n).__abstractmethods__]
    for name in concrete:
        a_cls, b_cls = getattr(old, name), getattr(new, name)
        params = list(inspect.signature(a_cls.__init__).parameters.values())[2:]   # drop self, line
        for trial in range(40):
            line_args = ('f.asm', rng.randint(1, 99), '  some text')
            args = []
            for p in params:
                if p.kind == p.VAR_POSITIONAL:
                    args.extend(rng.choice(values) for _ in range(rng.randint(0, 3)))
                elif p.default is not p.empty and rng.random() < 0.5:
                    break
                else:
                    args.append(rng.choice(values))
            if name == 'Blob':
                args = [bytes(rng.randrange(256) for _ in range(rng.choice([0, 1, 15, 16, 17, 40])))]
            if name == 'Sequence' and rng.random() < 0.8:
                args = [rng.choice(['bytes', 'shorts', 'ints', 'longs', 'longlongs', 'BYTES', 'nope']),
                        [str(rng.randint(-5, 300)) for _ in range(rng.randint(0, 4))]]
            if name == 'ShorthandPack' and rng.random() < 0.8:
                args = [rng.choice(['db', 'dh', 'dw', 'dd', 'DB', 'dq']), rng.choice(values)]
            if name == 'Pack' and rng.random() < 0.8:
                args = [rng.choice(PACK_FORMATS), rng.choice(values)]
            if name == 'String' and rng.random() < 0.8:
                args = [rng.choice(TEXTS + ['\ud800', ''])]
            if name == 'Align':
                args = [rng.choice([1, 2, 4, 8, 3, 16, -4, 7])]
            a = a_cls(old.Line(*line_args), *args)
            b = b_cls(new.Line(*line_args), *args)
            da, db = describe(a), describe(b)
            tally.check(da == db, 'describe {}{!r}'.format(name, tuple(args)), (da, db))
            if name == 'Align':
                for position in range(-3, 40):
                    tally.check(a.resolution_size(position) == b.resolution_size(position),
                                'Align({}).resolution_size({})'.format(args[0], position))


def check_passes_directly(tally, old, new):
    """drive the refactored passes with hand-built item lists (also shapes assemble() never produces)"""
    rng = random.Random(SEED + 4)

    def build(mod, spec):
        line = mod.Line('direct.asm', spec[1], 'direct {}'.format(spec[1]))
        cls = getattr(mod, spec[0])
        args = [getattr(mod, a[0])(*a[1:]) if isinstance(a, tuple) and a and a[0] in ('Arithmetic', 'Hi', 'Lo')
                else a for a in spec[2:]]
        return cls(line, *args)

    def outcome(mod, func_name, specs, *extra):
        mod._equiv_handler.records = []
        items = [build(mod, s) for s in specs]
        extra = [dict(e) if isinstance(e, dict) else e for e in extra]
        try:
            result = getattr(mod, func_name)(items, *extra)
            if isinstance(result, (bytes, bytearray)):
                res = ('ok', type(result).__name__, bytes(result))
            else:
                res = ('ok', [describe(i) + [line_key(i.line)] for i in result],
                       [r is i for r, i in zip(result, items)] if len(result) == len(items) else None)
        except Exception as e:
            res = ('raised', type(e).__name__, line_key(getattr(e, 'line', None)))
        return res, extra, list(mod._equiv_handler.records)

    def both(func_name, specs, *extra):
        a = outcome(old, func_name, specs, *extra)
        b = outcome(new, func_name, specs, *extra)
        tally.check(a == b, 'direct {}'.format(func_name), (specs, a, b))

    def numbered(specs):
        return [(s[0], i + 1) + tuple(s[1:]) for i, s in enumerate(specs)]

    regs = ['x1', 'R', 'Z', 'a0', 0, 8, 'nope', 'S']
    constants = {'R': 9, 'Z': 0, 'S': 'x5', 'K': 77, 0: 3}
    pool = [
        lambda: ('Blob', bytes(rng.randrange(256) for _ in range(rng.choice([0, 1, 4, 17])))),
        lambda: ('String', rng.choice(TEXTS + ['\ud800'])),
        lambda: ('Sequence', rng.choice(['bytes', 'shorts', 'ints', 'longs', 'longlongs', 'nope']),
                 [rng.choice(['0', '1', '-1', '255', '256', '-129', '0x10', 'x', '65536', '2**3', '4294967296',
                              '-2147483649', '18446744073709551616']) for _ in range(rng.randint(0, 4))]),
        lambda: ('ShorthandPack', rng.choice(['db', 'dh', 'dw', 'dd', 'DB']),
                 rng.choice([0, 1, -1, 255, 256, -128, -129, 2**32, 2**64, -2**63, -2**63 - 1])),
        lambda: ('Pack', rng.choice(PACK_FORMATS), rng.choice([0, 1, -1, 255, 256, 2**31, 2**32, 2**64, 10**39,
                                                               10**400, 65520, -129])),
        lambda: ('Align', rng.choice([2, 4, 8])),
        lambda: ('Label', 'lab'),
        lambda: ('Constant', rng.choice(['A', 'x1', '5', 'Z', 'zero']),
                 rng.choice([('Arithmetic', '0'), ('Arithmetic', '5 + K'), ('Arithmetic', 'nope'),
                             ('Hi', ('Arithmetic', '5')), ('Arithmetic', 'x5'), ('Arithmetic', '1.5')])),
        lambda: ('RTypeInstruction', rng.choice(['add', 'sub', 'slli', 'nope']), rng.choice(regs), rng.choice(regs),
                 rng.choice(regs)),
        lambda: ('ITypeInstruction', rng.choice(['addi', 'lw', 'jalr']), rng.choice(regs), rng.choice(regs),
                 rng.choice([0, 5, -2048, 2047, 2048, -2049, ('Arithmetic', '4')]), rng.choice([False, True])),
        lambda: ('STypeInstruction', 'sw', rng.choice(regs), rng.choice(regs), rng.choice([0, 4, 4096])),
        lambda: ('BTypeInstruction', 'beq', rng.choice(regs), rng.choice(regs), rng.choice([0, 4, 3, 8192])),
        lambda: ('UTypeInstruction', 'lui', rng.choice(regs), rng.choice([0, 1, 2**20])),
        lambda: ('JTypeInstruction', 'jal', rng.choice(regs), rng.choice([0, 4, 2**21])),
        lambda: ('IETypeInstruction', rng.choice(['ecall', 'ebreak', 'fence.i'])),
        lambda: ('FenceInstruction', 'fence', rng.choice(['rw', 'iorw', 0, 15, 16, 'q']), rng.choice(['r', 'w', 1])),
        lambda: ('ATypeInstruction', rng.choice(['amoadd.w', 'sc.w']), rng.choice(regs), rng.choice(regs),
                 rng.choice(regs), rng.choice([0, 1, 2, '1']), rng.choice([0, 1])),
        lambda: ('ALTypeInstruction', 'lr.w', rng.choice(regs), rng.choice(regs), rng.choice([0, 1, 2]),
                 rng.choice([0, 1])),
        lambda: ('CRTypeInstruction', rng.choice(['c.mv', 'c.add']), rng.choice(regs), rng.choice(regs)),
        lambda: ('CRJTypeInstruction', rng.choice(['c.jr', 'c.jalr']), rng.choice(regs), rng.choice([False, True])),
        lambda: ('CRETypeInstruction', 'c.ebreak'),
        lambda: ('CINTypeInstruction', 'c.nop'),
        lambda: ('CITypeInstruction', rng.choice(['c.addi', 'c.li', 'c.lui', 'c.slli', 'c.lwsp']), rng.choice(regs),
                 rng.choice([0, 1, 4, 31, 32, -32, -33, 252])),
        lambda: ('CIATypeInstruction', 'c.addi16sp', rng.choice([0, 16, 496, 512, 8])),
        lambda: ('CSSTypeInstruction', 'c.swsp', rng.choice(regs), rng.choice([0, 4, 252, 256, 2])),
        lambda: ('CIWTypeInstruction', 'c.addi4spn', rng.choice(regs), rng.choice([0, 4, 1020, 1024])),
        lambda: ('CLTypeInstruction', 'c.lw', rng.choice(regs), rng.choice(regs), rng.choice([0, 4, 124, 128])),
        lambda: ('CSTypeInstruction', 'c.sw', rng.choice(regs), rng.choice(regs), rng.choice([0, 4, 124, 128])),
        lambda: ('CATypeInstruction', rng.choice(['c.sub', 'c.and']), rng.choice(regs), rng.choice(regs)),
        lambda: ('CBTypeInstruction', rng.choice(['c.beqz', 'c.srli', 'c.andi']), rng.choice(regs),
                 rng.choice([0, 1, 4, 31, 32, 254, 256])),
        lambda: ('CJTypeInstruction', rng.choice(['c.j', 'c.jal']), rng.choice([0, 2, 2046, 2048, 3])),
        lambda: ('PseudoInstruction', rng.choice(['nop', 'li', 'mv']), 'x1', 'R'),
    ]

    for _ in range(1500):
        specs = numbered([rng.choice(pool)() for _ in range(rng.randint(0, 6))])
        both('resolve_constants', specs, constants)
        both('resolve_register_aliases', specs, constants)
        both('resolve_register_aliases', specs, {})
        both('resolve_instructions', specs)
        both('resolve_strings', specs)
        both('resolve_sequences', specs)
        both('transform_shorthand_packs', specs)
        both('resolve_packs', specs)
        both('resolve_blobs', specs)
    # blobs only
    for _ in range(50):
        specs = numbered([pool[0]() for _ in range(rng.randint(0, 6))])
        both('resolve_blobs', specs)
        both('resolve_include_bytes', specs)

    # include_bytes items straight into the pass
    tmp = tempfile.mkdtemp(prefix='equiv_direct_')
    try:
        path = os.path.join(tmp, 'f.bin')
        with open(path, 'wb') as f:
            f.write(b'0123456789')
        for fsize in (10, 9, 11, 0):
            both('resolve_include_bytes', numbered([('Blob', b'x'), ('IncludeBytes', path, fsize)]))
        both('resolve_include_bytes', numbered([('IncludeBytes', os.path.join(tmp, 'nope.bin'), 0)]))
        both('resolve_include_bytes', numbered([('IncludeBytes', None, 0)]))
        both('resolve_include_bytes', numbered([('IncludeBytes', tmp, 0)]))
    finally:
        shutil.rmtree(tmp, ignore_errors=True)


def check_examples_and_tests(tally, old, new):
    """every real program lying around in the repo"""
    n = 0
    for base in ('examples', 'tests', 'docs'):
        for dirpath, _, files in os.walk(os.path.join(HERE, base)):
            for name in sorted(files):
                if name.endswith(('.asm', '.s', '.S')):
                    path = os.path.join(dirpath, name)
                    for compress in (False, True):
                        tally.compare(old, new, 'repo file ' + os.path.relpath(path, HERE), path,
                                      compress=compress, include_dirs=[dirpath])
                    n += 1
    return n


def main():
    parser = argparse.ArgumentParser(description=__doc__, formatter_class=argparse.RawDescriptionHelpFormatter)
    parser.add_argument('-n', '--programs', type=int, default=4000, help='number of random programs')
    parser.add_argument('--strict-messages', action='store_true', help='also fail on error message differences')
    args = parser.parse_args()

    workdir = tempfile.mkdtemp(prefix='equiv_mod_')
    try:
        old, new = load_both(workdir)
        tally = Tally(args.strict_messages)

        check_classes(tally, old, new)
        print('item classes / signatures compared ({} checks so far)'.format(tally.cases))
        check_passes_directly(tally, old, new)
        print('passes driven directly ({} checks so far)'.format(tally.cases))
        n = check_targeted_programs(tally, old, new)
        print('{} targeted programs x compress on/off'.format(n))
        check_random_programs(tally, old, new, args.programs)
        print('{} random programs x compress on/off (seed {})'.format(args.programs, SEED))
        n = check_include_trees(tally, old, new)
        print('{} include / include_bytes trees (file x compress on/off, and as source text)'.format(n))
        n = check_examples_and_tests(tally, old, new)
        print('{} assembly files from the repo'.format(n))
        print()
        return tally.report()
    finally:
        shutil.rmtree(workdir, ignore_errors=True)


if __name__ == '__main__':
    sys.exit(main())
