"""C11 - constants evaluate as integer arithmetic and substitute transparently (structural clauses).

The rules are stated over dataflow: parameter *positions* of the passes (which argument of a pass receives the constants table /
the label table is read from the abstractly evaluated pipeline of assemble, bbverif.passorder), attribute provenance (the field an
Expr class stores its constructor argument in), paths with helper methods / helper functions inlined (bbverif.construles), and
literal sets resolved through local and module-level names.  Failures of a shared engine or constructs that are not understood are
collected and end the run with ANALYSIS-ERROR unless a violation has been established."""
import ast

from ..core import Report, Finding, AnalysisError
from ..facts import Facts
from ..astutil import unparse, dotted, walk_no_nested
from ..pathwalk import show, is_const, C, PathState
from ..layout import account
from .. import immsites as IS, encprops
from ..passorder import Pipeline
from ..construles import method_paths, item_loop_paths, Resolver, encoder_param_kinds, XWalker
from ..layoutrules import returned_list

LEVEL = 'other'

EXPR_EVAL_PARAMS = 3      # eval(self, position, env, line)


def stored_fields(facts, cls):
    """{attribute: constructor parameter index} for `self.attr = param` assignments of cls.__init__."""
    params = [p for p, _ in facts.init_params(cls)]
    out = {}
    for attr, src in facts.full_attr_order(cls):
        if src in params:
            out[attr] = params.index(src)
    return out


def norm_test(t, pol):
    while t[0] == 'un' and t[1] == 'not':
        t, pol = t[2], not pol
    return t, pol


def exact_int_guard(v, conds):
    """Has the value v passed `type(v) is int` on this path (any spelling / polarity)?  True; False when every test of v on the
    path is understood and together they let a non-int (a bool) through; None when v is tested in a way that is not understood."""
    isa_int = not_bool = unknown = False
    for t, pol, _ in conds:
        t, pol = norm_test(t, pol)
        if not IS.contains(t, v):
            continue
        understood = False
        if t[0] == 'cmp' and pol is not None:
            a, b = t[2], t[3]
            type_of_v = (('call', 'type', (v,), ()), ('attr', v, '__class__'))
            for x, y in ((a, b), (b, a)):
                if x in type_of_v and y[0] == 'name' and t[1] in ('!=', 'is not', '==', 'is'):
                    # a comparison of the result's type with a named type: exact when it pins int
                    if y == ('name', 'int') and ((t[1] in ('!=', 'is not') and pol is False) or (t[1] in ('==', 'is') and pol is True)):
                        return True
                    understood = True
                if x == v and is_const(y):
                    understood = True          # `result is None`, `result == 0`: says nothing about the type
            if a in type_of_v and b[0] in ('tuple', 'list', 'set') and b[1] and all(x[0] == 'name' for x in b[1]) and t[1] in ('in', 'not in'):
                # type(v) in (int,) is the exact test; type(v) in (int, float, ...) positively lets the other types through
                if b[1] == (('name', 'int'),) and ((t[1] == 'not in' and pol is False) or (t[1] == 'in' and pol is True)):
                    return True
                understood = True
        if t[0] == 'call' and t[1] == 'isinstance' and len(t[2]) == 2 and t[2][0] == v and pol is not None:
            if t[2][1][0] == 'name' or (t[2][1][0] == 'tuple' and all(x[0] == 'name' for x in t[2][1][1])):
                understood = True
            if t[2][1] == ('name', 'int'):
                isa_int = isa_int or pol is True
            if t[2][1] == ('name', 'bool'):
                not_bool = not_bool or pol is False
        if not understood:
            unknown = True
    if isa_int and not_bool:
        return True
    return None if unknown else False


def result_handed_on(v, p):
    """Is the evaluated value v an argument of some call on this path (other than the statement that produced it and the return)?"""
    for ev in p.events:
        if ev[0] in ('return', 'cond'):
            continue
        for x in ev[1:-1]:
            if isinstance(x, tuple) and x != v and IS.contains(x, v):
                return True
    return False


def _pins_builtins(pairs):
    """True / False / None for the (key value, stored value) pairs of a globals dict."""
    for k, v in pairs:
        if not is_const(k):
            return None
        if k == C('__builtins__'):
            if v == C(None) or (v[0] == 'dict' and not v[1]):
                return True
            return False if (is_const(v) or v[0] == 'dict') else None
    return False


def globals_verdict(facts, g, owner_names):
    """Does the globals argument of eval() pin `__builtins__` to None / {}?  True / False / None (not understood).  Read through a
    dict display, dict(...) with keywords, a module-level constant, or a class-level constant of the evaluating class."""
    if g is None:
        return False                     # eval(text): the caller's globals, builtins included
    if g[0] == 'dict':
        if any(k == ('opaque', '**') for k, _ in g[1]):
            return None
        return _pins_builtins(g[1])
    if g[0] == 'call' and g[1] == 'dict' and not g[2]:
        if any(k is None for k, _ in g[3]):
            return None
        return _pins_builtins([(C(k), v) for k, v in g[3]])
    folded = None
    if g[0] == 'name' and isinstance(facts.consts.get(g[1]), dict):
        folded = facts.consts[g[1]]
    elif g[0] == 'attr' and g[1][0] == 'name' and g[1][1] in owner_names:
        from ..astutil import fold, NotConstant
        cls = owner_names[g[1][1]]
        seen = set()
        while cls in facts.classes and cls not in seen and folded is None:
            seen.add(cls)
            defs = [st_.value for st_ in facts.classes[cls].node.body if isinstance(st_, ast.Assign)
                    and any(isinstance(t, ast.Name) and t.id == g[2] for t in st_.targets)]
            if len(defs) == 1:
                try:
                    folded = fold(defs[0], facts.consts)
                except NotConstant:
                    return None
                if not isinstance(folded, dict):
                    return None
            elif defs:
                return None
            else:
                cls = next((b for b in facts.classes[cls].bases if b in facts.classes), None)
    if folded is None:
        return None
    if '__builtins__' not in folded:
        return False
    return folded['__builtins__'] in (None, {})


def check_integer_results(rep, facts, und):
    """R11.1: every value returned by Arithmetic.eval (helper methods inlined) passed the exact-int test or is ord(<one char>); the
    evaluation runs on the stored expression text with builtins pinned off and the caller's environment as namespace."""
    if 'Arithmetic' not in facts.classes:
        raise AnalysisError('anchor vanished: class Arithmetic')
    m, paths = method_paths(facts, 'Arithmetic', 'eval')
    params = [a.arg for a in m.args.args]
    if len(params) != EXPR_EVAL_PARAMS + 1:
        raise AnalysisError('Arithmetic.eval does not have the (position, env, line) signature')
    env_param = ('name', params[2])
    fields = stored_fields(facts, 'Arithmetic')
    n = 0
    evals = {}
    env_none = {}          # eval term -> is the env parameter known to be None on every path that evaluates it

    def env_is_none(p):
        for t, pol, _ in p.conds:
            t, pol = norm_test(t, pol)
            if t[0] == 'cmp' and t[2] == env_param and t[3] == C(None) and ((t[1] in ('is', '==') and pol is True) or (t[1] in ('is not', '!=') and pol is False)):
                return True
        return False
    for p in paths:
        for ev in p.events:
            for t in IS.find_all(ev[1:-1], lambda t: t[0] == 'call' and t[1] == 'eval'):
                evals.setdefault(t, ev[-1])
                env_none[t] = env_none.get(t, True) and env_is_none(p)
        if p.end != 'return':
            continue
        n += 1
        val = [e for e in p.events if e[0] == 'return'][-1]
        v = val[1]
        if v[0] == 'call' and v[1] == 'ord' and len(v[2]) == 1:
            # R11.1.char-text: the character is the text between the two delimiting quotes - exactly the first and the last character
            # of the literal removed, then (optionally) the escape processing; strip("'") / replace also eat an escaped quote ('\\'')
            base = v[2][0]
            while base[0] == 'mcall' and base[2] in ('encode', 'decode') and all(is_const(a) for a in base[3]) and not base[4]:
                base = base[1]
            if base[0] == 'slice' and all(is_const(b) for b in base[2:5]):
                bounds = tuple(b[1] for b in base[2:5])
                if bounds in ((1, -1, None), (1, -1, 1)):
                    rep.ok('R11.1.char-text', 'the character of a literal is the text between its first and last character')
                else:
                    rep.fail(Finding('R11.1.char-text', 'Arithmetic.eval', val[2],
                                     'the character of a quoted literal is taken as the slice [{}:{}] of the text: not exactly the text between the '
                                     'two delimiting quotes'.format(bounds[0], bounds[1]), line=val[2].lineno),
                             instance='character literal = text between the delimiting quotes')
            elif base[0] == 'mcall' and base[2] in ('strip', 'lstrip', 'rstrip', 'replace', 'removeprefix', 'removesuffix', 'translate'):
                rep.fail(Finding('R11.1.char-text', 'Arithmetic.eval', val[2],
                                 'the quotes of a character literal are removed with .{}(..): that also removes / misses quotes that belong to the '
                                 'character itself (the literal \'\\\'\' = 39 loses its escaped quote), so a documented literal is refused or '
                                 'misread'.format(base[2]), line=val[2].lineno),
                         instance='character literal = text between the delimiting quotes')
            else:
                und.append('Arithmetic.eval: the text handed to ord() is not read as the literal without its two delimiting quotes: {}'.format(show(base)[:70]))
            rep.ok('R11.1.integer', 'character literal path returns ord(c)')
            continue
        if is_const(v) and type(v[1]) is int:
            rep.ok('R11.1.integer', 'constant integer result', nontrivial=False)
            continue
        inner_evals = IS.find_all(v, lambda t: t[0] == 'call' and t[1] == 'eval')
        bare_v = v
        while bare_v[0] == 'res':
            bare_v = bare_v[3]
        if inner_evals and not (bare_v[0] == 'call' and bare_v[1] == 'eval'):
            inner_guard = exact_int_guard(inner_evals[0], p.conds) if len(inner_evals) == 1 else None
            if inner_guard is True and bare_v == ('call', 'int', (inner_evals[0],), ()):
                rep.ok('R11.1.integer', 'evaluated result is returned only after the exact-int test (int() of an int)')
                continue
            if inner_guard is True:
                und.append('Arithmetic.eval: the checked result is transformed before it is returned: {}'.format(show(bare_v)[:60]))
                continue
            # something is done to the value between eval() and the return (int(..), round(..), a mask): whatever the test says
            # about the transformed value, the expression's own value was never required to be an integer
            rep.fail(Finding('R11.1.integer', 'Arithmetic.eval', val[2],
                             'the value of the expression is transformed before it is returned ({}): a non-integer result (7/2, 2047.9) is turned into an integer '
                             'instead of being refused'.format(show(bare_v)[:60]), line=val[2].lineno),
                     instance='the returned value is the value eval() produced')
            continue
        guard = exact_int_guard(v, p.conds)
        if guard is True:
            rep.ok('R11.1.integer', 'evaluated result is returned only after the exact-int test')
        elif v[0] == 'call' and v[1] == 'eval' and (guard is None or result_handed_on(v, p)):
            # the result is tested / handed on in a way that is not read as the exact-int test: no verdict, not a finding
            und.append('Arithmetic.eval: the result of eval() is inspected before it is returned, but not by a test that is understood as `type(result) is int`')
        elif v[0] == 'call' and v[1] == 'eval':
            rep.fail(Finding('R11.1.integer', 'Arithmetic.eval', val[2],
                             'a result of eval() is returned without having passed `type(result) != int -> error`: bool / float / str results become immediates',
                             line=val[2].lineno), instance='evaluated result is returned only after the exact-int test')
        else:
            und.append('Arithmetic.eval returns a value whose type is not understood: {}'.format(show(v)[:80]))
    rep.analysed['Arithmetic.eval return paths'] = n
    owner_names = {params[0]: 'Arithmetic', 'Arithmetic': 'Arithmetic'}
    for t, node in evals.items():
        args, kw = t[2], dict(t[3])
        src = args[0] if args else kw.get('source')
        g = args[1] if len(args) > 1 else kw.get('globals')
        loc = args[2] if len(args) > 2 else kw.get('locals')
        if src is not None and src[0] == 'call' and src[1] == 'compile' and src[2] and (len(src[2]) < 3 or src[2][2] == C('eval')) \
                and dict(src[3]).get('mode', C('eval')) == C('eval'):
            src = src[2][0]                 # eval(compile(text, name, 'eval'), ...) evaluates text
        # the text: the field the constructor argument is stored in (True), something understood to be different (False), else None
        if src is not None and src[0] == 'attr' and src[1] == ('name', params[0]):
            src_v = src[2] in fields
        elif src is None or is_const(src) or (src[0] == 'name' and src[1] in params):
            src_v = False
        else:
            src_v = None
        g_v = globals_verdict(facts, g, owner_names)
        if loc == env_param:
            loc_v = True
        elif loc is not None and loc[0] == 'dict' and not loc[1] and env_none.get(t):
            loc_v = True                    # `env if env is not None else {}`: no environment was given, an empty one stands in
        elif loc is None or is_const(loc) or loc[0] in ('dict', 'name', 'attr'):
            loc_v = False                   # no namespace, a fresh / constant one, another parameter or a field
        else:
            loc_v = None
        verdicts = (src_v, g_v, loc_v)
        if None in verdicts and False not in verdicts:
            und.append('Arithmetic.eval: `{}` is not understood ({})'.format(show(t)[:70], ', '.join(
                n for n, v_ in zip(('expression text', 'globals', 'namespace'), verdicts) if v_ is None)))
            continue
        rep.check(False not in verdicts, 'R11.1.sandbox', 'eval(<stored expression text>, {__builtins__: None}, <the env argument>)',
                  lambda node=node: Finding('R11.1.sandbox', 'Arithmetic.eval', node, 'the expression is not evaluated with builtins pinned off and the given environment as namespace', line=node.lineno))
    rep.analysed['sandboxed evaluations'] = len(evals)


def expr_eval_params(facts):
    """Names of the (position, env, line) parameters of the eval() methods of the Expr classes when they all agree, else None."""
    sigs = set()
    for cname, ci in facts.classes.items():
        m = ci.methods.get('eval')
        if m is not None and facts.is_subclass(cname, 'Expr'):
            sigs.add(tuple(a.arg for a in m.args.args[1:]))
    return list(sigs.pop()) if len(sigs) == 1 and len(next(iter(sigs))) == EXPR_EVAL_PARAMS else None


def eval_argument(facts, mc, index):
    """The value an `<expr>.eval(...)` call passes for parameter `index` of (position, env, line), positionally or by keyword;
    None when it passes none, ('unknown',) when the call is not read (star arguments, ** splat)."""
    args, kw = mc[3], dict(mc[4])
    if any(a[0] == 'star' for a in args) or None in kw:
        return ('unknown',)
    if len(args) > index:
        return args[index]
    names = expr_eval_params(facts)
    if kw and names is None:
        return ('unknown',)
    return kw.get(names[index]) if names else None


def table_stores(facts, p, tbl):
    """([(key, value, node)], opaque): what the path stores into the table `tbl`: `tbl[k] = v`, `tbl.__setitem__(k, v)`,
    `tbl.update({k: v})` / `tbl.update(k=v)`; opaque is True when the table is changed or handed on in another way."""
    from ..pathwalk import MUTATORS
    out, opaque = [], False
    for e in p.events:
        if e[0] == 'setitem' and e[1] == tbl:
            out.append((e[2], e[3], e[4]))
        elif e[0] == 'mcall' and e[1] == tbl and e[2] in MUTATORS:
            args, kw = e[3], dict(e[4])
            if e[2] == '__setitem__' and len(args) == 2 and not kw:
                out.append((args[0], args[1], e[5]))
            elif e[2] == 'update' and len(args) == 1 and not kw and args[0][0] == 'dict' and all(k != ('opaque', '**') for k, _ in args[0][1]):
                out.extend((k, v, e[5]) for k, v in args[0][1])
            elif e[2] == 'update' and not args and kw and None not in kw:
                out.extend((C(k), v, e[5]) for k, v in kw.items())
            else:
                opaque = True
        elif e[0] in ('expr', 'mcall') and IS.find_all(e[1:-1], lambda x: (
                (x[0] == 'call' and x[1] in facts.funcs) or x[0] in ('callv', 'new')) and any(a == tbl for a in x[2])):
            opaque = True                 # the table itself is handed to a repository function that is not followed
    return out, opaque


def judge_constant_store(facts, p, sets, opaque, tbl, item, fields):
    """(verdict, why, key field, environment) for one constant-definition path: True / False / None (not understood)."""
    if opaque:
        return None, 'the constants table is changed through a call that is not followed', None, None
    if not sets:
        return False, 'nothing is stored into the table', None, None
    if len(sets) != 1:
        return None, 'several stores into the constants table on one path', None, None
    key, stored, node = sets[0]
    while stored[0] == 'res':
        stored = stored[3]
    if not (stored[0] == 'mcall' and stored[2] == 'eval'):
        # the evaluation sits in a helper: follow the stored value through effect-free module-level functions
        from ..layout import Sizes
        resolved = Sizes(facts).resolve(stored, p)
        if resolved[0] == 'mcall' and resolved[2] == 'eval':
            stored = resolved
        elif is_const(stored) or (stored[0] == 'attr' and stored[1] == item):
            return False, 'the value stored is {}, not the evaluated expression'.format(show(stored)[:40]), None, None
        else:
            return None, 'the value stored for a constant ({}) is not followed back to an evaluation of its expression'.format(show(stored)[:80]), None, None
    if not (key[0] == 'attr' and key[1] == item and key[2] in fields):
        if is_const(key) or (key[0] == 'attr' and key[1] == item):
            return False, 'stored under {}'.format(show(key)[:40]), None, None
        return None, 'the key a constant is stored under ({}) is not understood'.format(show(key)[:60]), None, None
    recv = stored[1]
    if not (recv[0] == 'attr' and recv[1] == item and recv[2] in fields):
        return None, 'the expression that is evaluated ({}) is not a field of the constant'.format(show(recv)[:60]), None, None
    if recv[2] == key[2]:
        return False, 'the field the constant is stored under is the field that is evaluated', None, None
    env = eval_argument(facts, stored, 1)
    if env is None or is_const(env) or env == tbl:
        return False, 'evaluated in {}'.format('no environment' if env is None else show(env)[:40]), None, None
    if is_chainmap(env) and not any(a[0] == 'star' for a in env[2]) and not env[3]:
        if env[2] and env[2][0] == tbl:
            return True, '', key[2], env
        return False, 'the environment {} does not look the constants up first'.format(show(env)[:60]), None, None
    return None, 'the environment a constant is evaluated in ({}) is not understood'.format(show(env)[:60]), None, None


def is_chainmap(v):
    return v is not None and v[0] == 'call' and v[1].split('.')[-1] == 'ChainMap'


def check_constants_pass(rep, facts, pipe, und):
    """R11.2: constants are evaluated in definition order, earlier constants visible, result stored under the constant's name; names
    the environment already resolves (registers) and numeric names are refused; the pass precedes every other user of the table."""
    fn = facts.funcs.get('resolve_constants')
    if fn is None:
        raise AnalysisError('anchor vanished: pass resolve_constants')
    pos = table_position(pipe, 'resolve_constants', 'constants')
    tbl = ('name', fn.args.args[pos].arg)
    _, loop, paths = item_loop_paths(facts, fn)
    if not isinstance(loop.target, ast.Name):
        raise AnalysisError('resolve_constants: item loop does not bind a single name')
    item = ('item', loop.target.id)
    result = returned_list(fn)
    n = 0
    fallback = None
    const_paths = []
    key_attrs = set()
    for p in paths:
        f = p.facts.get(item)
        if not f or 'Constant' not in f['isa']:
            continue
        const_paths.append(p)
        if p.end == 'raise':
            continue
        n += 1
        fields = stored_fields(facts, 'Constant')
        sets, opaque_store = table_stores(facts, p, tbl)
        where = sets[0][2] if sets else loop
        verdict, why, key_attr, env = judge_constant_store(facts, p, sets, opaque_store, tbl, item, fields)
        if verdict is None:
            und.append('resolve_constants: ' + why)
            continue
        if verdict:
            key_attrs.add(key_attr)
            if len(env[2]) > 1:
                fallback = env[2][1]
        rep.check(verdict, 'R11.2.sequential', 'constants[name] = expr.eval(env over the constants defined so far)',
                  lambda p=p, where=where, why=why: Finding('R11.2.sequential', 'resolve_constants', where,
                                                            'a constant is not stored as the value of its own expression evaluated over the constants defined before it ({})'.format(why), line=loop.lineno))
        acc = account(p, result)
        kept = [a for a in acc.appended if a[0] in (('lv', result), ('name', result))]
        rep.check(not kept, 'R11.2.sequential', 'the constant item itself emits nothing',
                  lambda: Finding('R11.2.sequential', 'resolve_constants', loop, 'constant definitions are kept as items', line=loop.lineno), nontrivial=False)
    rep.analysed['constant definition paths'] = n
    # refusals: a positive membership test of the constant's name in the fallback map of the environment / is_int(name)
    raises = [p for p in const_paths if p.end == 'raise']
    name_syms = [('attr', item, a) for a in sorted(key_attrs)]       # the field the table is keyed by

    def positive(p, pred):
        for t, pol, _ in p.conds:
            t, pol = norm_test(t, pol)
            if pred(t, pol):
                return True
        return False

    def shadows(t, pol):
        if t[0] != 'cmp' or t[2] not in name_syms:
            return False
        table = t[3]
        if table[0] == 'mcall' and table[2] == 'keys':
            table = table[1]
        if fallback is not None and table != fallback:
            return False
        return (t[1] == 'in' and pol is True) or (t[1] == 'not in' and pol is False)

    def numeric(t, pol):
        return t[0] == 'call' and t[1] == 'is_int' and len(t[2]) == 1 and t[2][0] in name_syms and pol is True
    # refusals that depend on the constant's name (a raise reached under a condition that mentions it)
    raise_nodes = {id(p.end_node) for p in raises if any(any(IS.contains(t, s_) for s_ in name_syms) for t, _, _ in p.conds)}
    # a refusal that depends on the *value* the expression evaluated to: a constant is an integer of any size (64-bit data
    # directives take them, intermediate values are scaled down again), so refusing some of them changes what programs mean
    for p in raises:
        evalv = [e[1] for e in p.events if e[0] == 'value' and e[1][0] == 'mcall' and e[1][2] == 'eval' and e[1][1][0] == 'attr' and e[1][1][1] == item]
        if not evalv:
            continue
        for t, pol, nd in p.conds:
            if any(IS.contains(t, ev_) for ev_ in evalv) and t[0] in ('cmp', 'bool'):
                rep.fail(Finding('R11.2.value', 'resolve_constants', nd if nd is not None else loop,
                                 'a constant definition is refused depending on the value of its expression ({}): a constant is the integer its expression evaluates '
                                 'to, of any magnitude'.format(show(t)[:80]), line=getattr(nd, 'lineno', loop.lineno)),
                         instance='no constant is refused because of its value')
                break
    has_shadow = any(positive(p, shadows) for p in raises)
    has_numeric = any(positive(p, numeric) for p in raises)
    explained = {id(p.end_node) for p in raises if positive(p, shadows) or positive(p, numeric)}
    unexplained = len(raise_nodes - explained)
    # a call that receives the constant (or its name) before the definition and is not followed may be where names are refused
    opaque_checks = []
    for p in const_paths:
        if p.end == 'raise':
            continue
        for e in p.events:
            if e[0] == 'setitem' and e[1] == tbl:
                break
            if e[0] == 'mcall' and e[1] == tbl:
                break
            if e[0] == 'mcall' and e[1] == item and e[2] != 'eval':
                opaque_checks.append(e[:5])
            if e[0] != 'expr':
                continue                 # tests (`if is_int(name)`) are read as conditions; a validation call is a statement
            for x in IS.find_all(e[1:-1], lambda x: (x[0] == 'mcall' and x[1] == item and x[2] != 'eval') or
                                 (x[0] in ('call', 'callv') and (x[0] == 'callv' or x[1] in facts.funcs) and any(a == item or (a[0] == 'attr' and a[1] == item) for a in x[2]))):
                opaque_checks.append(x)
    unexplained = unexplained or len(opaque_checks)
    if not key_attrs:
        und.append('resolve_constants: the field a constant is stored under is not identified')
    elif not has_shadow and unexplained:
        und.append('resolve_constants refuses constant names through a test that is not understood')
    else:
        rep.check(has_shadow, 'R11.2.names', 'a constant may not shadow a register name',
                  lambda: Finding('R11.2.names', 'resolve_constants', loop, 'constant names that shadow registers are no longer refused: `t0 = 5` would change what `t0` means', line=loop.lineno))
    if not key_attrs:
        pass
    elif not has_numeric and unexplained:
        und.append('resolve_constants refuses constant names through a test that is not understood')
    else:
        rep.check(has_numeric, 'R11.2.names', 'a constant may not be named like a number',
                  lambda: Finding('R11.2.names', 'resolve_constants', loop, 'numeric constant names are no longer refused', line=loop.lineno), nontrivial=False)
    # ordering: the table is complete before any other pass receives it
    for compress, calls in pipe.all_paths():
        passes = pipe.passes(calls)
        definer = [c for c in passes if c.named('resolve_constants')]
        if len(definer) != 1:
            und.append('resolve_constants is called {} times on a path of assemble'.format(len(definer)))
            continue
        table = definer[0].args[pos] if len(definer[0].args) > pos else None
        users = [c for c in passes if c is not definer[0] and table is not None and (table in c.args or table in c.kwargs.values())]
        early = [c for c in users if c.index < definer[0].index]
        rep.check(not early, 'R11.2.order', 'constants are resolved before every other pass that receives the table (compress={})'.format(compress),
                  lambda early=early: Finding('R11.2.order', 'assemble', 'pipeline', 'constants are not resolved first: {} receives the table before it is filled'.format(early[0].name),
                                              line=facts.funcs['assemble'].lineno), nontrivial=False)
        rep.count('passes that receive the constants table', len(users))


def table_position(pipe, pass_name, role):
    """Argument position at which assemble hands the `role` table to the pass (the same on every path)."""
    found = set()
    for compress, calls in pipe.all_paths():
        tables = role_tables(pipe, calls)
        for c in pipe.passes(calls):
            if c.named(pass_name) and c.name == pass_name:
                for i, a in enumerate(c.args):
                    if tables.get(role) is not None and a == tables[role]:
                        found.add(i)
    if len(found) != 1:
        raise AnalysisError('{}: the position of the {} table among its arguments is not determined ({})'.format(pass_name, role, sorted(found)))
    return found.pop()


def role_tables(pipe, calls):
    """{'constants': value, 'labels': value}: the table is what assemble hands to the pass that defines it."""
    out = {}
    for role, definer in (('constants', 'resolve_constants'), ('labels', 'resolve_labels')):
        for c in pipe.passes(calls):
            if c.named(definer):
                cands = [a for a in c.args if a[0] not in ('items', 'const', 'func', 'class', 'closure', 'module')]      # a module-level table handed along is not the per-call one
                if len(cands) == 1:
                    out[role] = cands[0]
                break
    return out


def check_envs(rep, facts, pipe, und):
    """R11.2.env: every pass that receives both tables evaluates in an environment that looks constants up first:
    ChainMap(<constants parameter>, <labels parameter>), with the parameters identified by argument position."""
    seen = {}
    for compress, calls in pipe.all_paths():
        tables = role_tables(pipe, calls)
        if 'constants' not in tables or 'labels' not in tables:
            raise AnalysisError('assemble: the constants / label tables are not identified')
        for c in pipe.passes(calls):
            if c.name not in facts.funcs:
                continue
            ci = [i for i, a in enumerate(c.args) if a == tables['constants']]
            li = [i for i, a in enumerate(c.args) if a == tables['labels']]
            if ci and li:
                seen.setdefault(c.name, set()).add((ci[0], li[0]))
    n = 0
    for name, positions in sorted(seen.items()):
        if len(positions) != 1:
            und.append('{} receives the tables at different positions on different paths'.format(name))
            continue
        ci, li = next(iter(positions))
        fn = facts.funcs[name]
        res = Resolver(facts, fn)
        if fn.args.vararg or len(fn.args.args) <= max(ci, li):
            und.append('{}: table parameters are not plain positional parameters'.format(name))
            continue
        envs = 0
        for node in ast.walk(fn):
            if isinstance(node, ast.Call) and dotted(node.func) in ('ChainMap', 'collections.ChainMap'):
                idx = [res.param_index(a) for a in node.args]
                if li not in idx:
                    continue
                envs += 1
                n += 1
                if None in idx or node.keywords:
                    und.append('{}: the maps of {} are not all followed back to parameters'.format(name, unparse(node)[:50]))
                    continue
                ok = idx == [ci, li]
                rep.check(ok, 'R11.2.env', '{}: ChainMap(constants, labels)'.format(name),
                          lambda node=node, name=name: Finding('R11.2.env', name, node,
                                                               'evaluation environment {} gives names a different precedence than every other site'.format(unparse(node)), line=node.lineno))
        # {**labels, **constants}: later entries win, so this looks constants up first as well - a snapshot, which equals the live
        # view only while neither table changes inside the function
        from ..pathwalk import MUTATORS as _MUT
        pnames = [a.arg for a in fn.args.args]
        changed = any((isinstance(x, ast.Subscript) and isinstance(x.ctx, (ast.Store, ast.Del)) and res.param_index(x.value) in (ci, li)) or
                      (isinstance(x, ast.Call) and isinstance(x.func, ast.Attribute) and x.func.attr in _MUT and res.param_index(x.func.value) in (ci, li))
                      for x in ast.walk(fn))
        for node in ast.walk(fn):
            if isinstance(node, ast.Dict) and node.keys and all(k is None for k in node.keys):
                idx = [res.param_index(v_) for v_ in node.values]
                if li not in idx:
                    continue
                envs += 1
                n += 1
                if None in idx or changed:
                    und.append('{}: the environment {} is a snapshot of tables that are not all followed / that change in this pass'.format(name, unparse(node)[:50]))
                    continue
                rep.check(idx == [li, ci], 'R11.2.env', '{}: {{**labels, **constants}} (constants looked up first)'.format(name),
                          lambda node=node, name=name: Finding('R11.2.env', name, node,
                                                               'evaluation environment {} gives names a different precedence than every other site'.format(unparse(node)), line=node.lineno))
        if not envs:
            und.append('{} receives the constants and the label table but builds no ChainMap over them (environment not understood)'.format(name))
        else:
            rep.count('passes with a label environment')
    rep.count('label environments', n)


def ends_alias_resolved(facts, fname):
    """Is every result of the module-level function `resolve_register_aliases(...)` applied to something (a tail call)?"""
    fn = facts.funcs.get(fname)
    if fn is None or fname == 'resolve_register_aliases':
        return False
    rets = [r for r in walk_no_nested(fn) if isinstance(r, ast.Return)]
    return bool(rets) and all(isinstance(r.value, ast.Call) and isinstance(r.value.func, ast.Name) and r.value.func.id == 'resolve_register_aliases'
                              and r.value.args for r in rets)


def check_aliases(rep, facts, pipe, und):
    """R11.3: register aliases are substituted before every consumer of register fields, in exactly the register fields,
    by a positional rebuild that preserves every other field."""
    fn = facts.funcs['assemble']
    for compress, calls in pipe.all_paths():
        passes = pipe.passes(calls)
        names = [c for c in passes]
        # a pass whose every result is `resolve_register_aliases(<its items>, ...)` hands alias-resolved items back: the
        # substitution then happens at its end (after whatever it created)
        alias_idx = [i + (0.5 if not c.named('resolve_register_aliases') else 0) for i, c in enumerate(names)
                     if c.named('resolve_register_aliases') or ends_alias_resolved(facts, c.name)]
        creators = [i for i, c in enumerate(names) if c.named('transform_pseudo_instructions')]
        consumers = [i for i, c in enumerate(names) if c.named('transform_compressible') or c.named('resolve_instructions')]
        if not any(c.named('resolve_instructions') for c in names):
            und.append('resolve_instructions is not among the passes of assemble')
        if not creators:
            # without the pass that expands pseudo-instructions (it creates items whose register fields may again be constant
            # names) the ordering rule below would hold vacuously
            und.append('transform_pseudo_instructions is not among the passes of assemble: which pass creates items with register fields is not identified')
        # the item list is threaded: each pass works on the result of the previous one
        def observer(c):
            """a call statement whose result is dropped and whose function does not change what it is handed (a logging helper)"""
            if not isinstance(getattr(c.node, '_parent', None), ast.Expr) or c.name not in facts.funcs:
                return False
            f_ = facts.funcs[c.name]
            from ..purity import default_use_class
            return all(default_use_class(f_, a.arg, facts.tree) == 'ok' for a in f_.args.posonlyargs + f_.args.args + f_.args.kwonlyargs)
        chain = [c for c in names if not observer(c)]
        for a, b in zip(chain, chain[1:]):
            if a.result not in b.args:
                und.append('pass {} does not receive the item list returned by {}'.format(b.name, a.name))
        for c in consumers:
            prior = [a for a in alias_idx if a < c]
            made = [m for m in creators if m < c]
            ok = bool(prior) and (not made or max(prior) > max(made))
            who = 'resolve_instructions' if names[c].named('resolve_instructions') else names[c].name
            hidden = [b.name for b in names[:c] if not b.named('resolve_register_aliases') and not ends_alias_resolved(facts, b.name)
                      and b.name in facts.funcs and any(isinstance(x, ast.Name) and x.id == 'resolve_register_aliases' for x in ast.walk(facts.funcs[b.name]))]
            if not ok and hidden:
                und.append('{} uses resolve_register_aliases in a way that is not followed (not simply on its result)'.format(hidden[0]))
                continue
            rep.check(ok, 'R11.3.order', '{} (step {}, compress={}) sees alias-resolved registers'.format(who, c, compress),
                      lambda who=who: Finding('R11.3.order', 'assemble', 'pipeline', '{} runs on items whose register fields may still be constant names'.format(who), line=fn.lineno))
    ra = facts.funcs.get('resolve_register_aliases')
    if ra is None:
        raise AnalysisError('anchor vanished: pass resolve_register_aliases')
    tpos = table_position(pipe, 'resolve_register_aliases', 'constants')
    # the pass and the module-level helpers it hands the item / the table to (a split into "compute the fields" + "rebuild")
    regions = {id(ra): (ra, Resolver(facts, ra), tpos)}
    for n in ast.walk(ra):
        if isinstance(n, ast.Call) and isinstance(n.func, ast.Name) and n.func.id in facts.funcs and id(facts.funcs[n.func.id]) not in regions \
                and n.func.id not in ('log_conversion', 'lookup_register'):
            callee = facts.funcs[n.func.id]
            cparams = [a.arg for a in callee.args.posonlyargs + callee.args.args]
            ctpos = None
            for i_, a in enumerate(n.args):
                if regions[id(ra)][1].param_index(a) == tpos and i_ < len(cparams):
                    ctpos = i_
            for kw in n.keywords:
                if kw.arg in cparams and regions[id(ra)][1].param_index(kw.value) == tpos:
                    ctpos = cparams.index(kw.arg)
            if ctpos is not None:
                regions[id(callee)] = (callee, Resolver(facts, callee), ctpos)

    def region_of(node):
        cur = node
        while cur is not None and id(cur) not in regions:
            cur = getattr(cur, '_parent', None)
        return regions[id(cur)] if cur is not None else regions[id(ra)]

    class _Res:
        def literal(self, node):
            return region_of(node)[1].literal(node)

        def param_index(self, node):
            return region_of(node)[1].param_index(node)
    res = _Res()

    def is_table(node):
        r_ = region_of(node)
        return r_[1].param_index(node) == r_[2]

    def walk_regions():
        for fn_, _, _ in regions.values():
            for n_ in ast.walk(fn_):
                yield n_

    # the field filter: literal sets of field names used in membership tests / intersections
    regs = None
    regs_node = ra
    cands = []
    for n in walk_regions():
        if isinstance(n, ast.Compare) and len(n.ops) == 1 and isinstance(n.ops[0], (ast.In, ast.NotIn)) and not is_table(n.comparators[0]):
            cands.append((n.comparators[0], n))
        elif isinstance(n, ast.BinOp) and isinstance(n.op, ast.BitAnd):
            cands.extend([(n.left, n), (n.right, n)])
        elif isinstance(n, ast.Call) and isinstance(n.func, ast.Attribute) and n.func.attr in ('intersection', 'isdisjoint', 'issubset'):
            cands.extend([(n.func.value, n)] + [(a, n) for a in n.args])
        elif isinstance(n, (ast.For, ast.comprehension)):
            cands.append((n.iter, n))
    for expr, n in cands:
        v = res.literal(expr)
        if v is not None and v and all(isinstance(x, str) for x in v):
            if regs is not None and set(v) != regs:
                und.append('resolve_register_aliases filters fields by two different literal sets')
            regs = set(v)
            regs_node = n
    if regs is None:
        raise AnalysisError('resolve_register_aliases: no literal set of register field names (looked through locals and module-level constants)')
    # which fields hold registers: attribute k of a class -> k-th value of args() -> k-th positional parameter of the encoder
    # bound to each of the class's mnemonics -> does that parameter reach lookup_register (value-kind dataflow, construles)
    kinds = {}
    try:
        cls_tables, _ = encprops.class_tables(facts)
        tables = facts.instruction_tables()
        for cls, tnames in cls_tables.items():
            if cls == 'PseudoInstruction' or cls not in facts.classes:
                continue
            attrs = facts.args_attrs(cls) or []
            for t in tnames:
                for mn in tables.get(t, {}):
                    binding = facts.binding(mn)
                    enc = binding.func
                    efn = facts.funcs.get(enc)
                    if efn is None:
                        raise AnalysisError('mnemonic {!r} is bound to {}, which is not a module-level function'.format(mn, enc))
                    pk = encoder_param_kinds(facts, enc)
                    positional = [a.arg for a in efn.args.posonlyargs + efn.args.args if a.arg not in binding.kwargs]   # still open
                    for attr, p_ in zip(attrs, positional):
                        kinds.setdefault(attr, set()).add(pk[p_])
                    rep.count('mnemonic bindings traced to register parameters')
            for attr, _ in facts.full_attr_order(cls):
                if attr not in attrs:
                    kinds.setdefault(attr, set()).add('other')       # line, name, flags: not operands of the encoder
    except AnalysisError as e:
        und.append('register-kinded fields could not be derived: {}'.format(e))
        kinds = None
    needed = {a for a, k in kinds.items() if 'reg' in k} if kinds is not None else None
    if not needed:
        # fall back on the bit-level encoder summaries (interprocedural, table-aware): a parameter is register-kinded when the
        # summary places it as a register operand
        try:
            from ..encsum import all_summaries
            sums = all_summaries(facts)
            cls_tables, _ = encprops.class_tables(facts)
            tables = facts.instruction_tables()
            kinds2 = {}
            for cls, tnames in cls_tables.items():
                if cls == 'PseudoInstruction' or cls not in facts.classes:
                    continue
                attrs = facts.args_attrs(cls) or []
                for t in tnames:
                    for mn in tables.get(t, {}):
                        sm = sums[mn]
                        regp = set()
                        for b in sm.bits:
                            if isinstance(b, tuple) and b and b[0] != 'overlap' and isinstance(b[0], tuple) and b[0][0] == 'reg':
                                regp.add(b[0][1])
                        for attr, p_ in zip(attrs, sm.params):
                            kinds2.setdefault(attr, set()).add('reg' if p_ in regp else 'other')
                for attr, _ in facts.full_attr_order(cls):
                    if attr not in attrs:
                        kinds2.setdefault(attr, set()).add('other')
            if any('reg' in k for k in kinds2.values()):
                kinds = kinds2
                needed = {a for a, k in kinds.items() if 'reg' in k}
                und[:] = [u for u in und if not u.startswith('register-kinded fields could not be derived')]
        except AnalysisError:
            pass
    if needed is not None and not needed:
        und.append('no register-kinded field could be derived (parse_item / class tables not understood)')
    elif needed is not None:
        rep.check(needed <= regs, 'R11.3.fields', 'alias substitution covers every register-kinded field {}'.format(sorted(needed)),
                  lambda: Finding('R11.3.fields', 'resolve_register_aliases', regs_node,
                                  'register fields {} are never alias-resolved: a constant naming a register is rejected there'.format(sorted(needed - regs)), line=regs_node.lineno))
        nonreg = {a for a in regs if a in kinds and 'reg' not in kinds[a]}
        rep.check(not nonreg, 'R11.3.fields', 'alias substitution touches register fields only',
                  lambda: Finding('R11.3.fields', 'resolve_register_aliases', regs_node, 'non-register fields {} are rewritten by alias resolution'.format(sorted(nonreg)), line=regs_node.lineno), nontrivial=False)
    # the rebuild: item.__class__(*<all fields of the item>.values())
    _, loop, paths = item_loop_paths(facts, ra)
    item = ('item', loop.target.id) if isinstance(loop.target, ast.Name) else None
    result = returned_list(ra)
    rebuilt = 0
    unknown_replacement = False

    def unwrap_seq(v):
        while v[0] == 'call' and v[1] in ('list', 'tuple') and len(v[2]) == 1 and not v[3]:
            v = v[2][0]
        return v
    for p in paths:
        acc = account(p, result)
        for recv, val, node, meth in acc.appended:
            if recv not in (('lv', result), ('name', result)) or val is None:
                continue
            if val[0] == 'mcall' and val[2] == '__class__':
                rebuilt += 1
                star = unwrap_seq(val[3][0][1]) if len(val[3]) == 1 and val[3][0][0] == 'star' else None
                ok = val[1] == item and star is not None and not val[4] and star[0] == 'mcall' and star[2] == 'values' and not star[3]
                if ok:
                    rep.ok('R11.3.rebuild', 'rebuilt as item.__class__(*fields.values()) (all other fields preserved, see rebuild invariant)', nontrivial=False)
                elif item is not None and val[1] != item and val[1][0] in ('item', 'name', 'attr'):
                    rep.fail(Finding('R11.3.rebuild', 'resolve_register_aliases', node, 'the replacement is built from the class of {}, not of the item it replaces'.format(show(val[1])[:40]), line=node.lineno),
                             instance='rebuilt as item.__class__(*fields.values()) (all other fields preserved, see rebuild invariant)')
                else:
                    unknown_replacement = True
                    und.append('resolve_register_aliases rebuilds the item with arguments that are not read as all of its fields in order: {}'.format(show(val)[:70]))
            elif val != item and val[0] in ('new', 'call', 'callv', 'mcall', 'res', 'obj'):
                unknown_replacement = True
                und.append('resolve_register_aliases builds its replacement item in a way that is not understood: {}'.format(show(val)[:60]))
    if rebuilt or not unknown_replacement:
        rep.check(rebuilt >= 1, 'R11.3.rebuild', 'an alias-resolved item is rebuilt',
                  lambda: Finding('R11.3.rebuild', 'resolve_register_aliases', ra, 'items with aliases are no longer rebuilt with the resolved registers', line=ra.lineno))
    # how does the pass decide that a field names a constant?  Membership in the table (or `.get(...) is None`); a bare
    # truthiness test of the looked-up value is wrong because 0 (x0, shift amount 0) is a legal constant value
    looked = set()
    lookups = 0
    for n in walk_regions():
        is_lookup = (isinstance(n, ast.Subscript) and isinstance(n.ctx, ast.Load) and is_table(n.value)) or \
            (isinstance(n, ast.Call) and isinstance(n.func, ast.Attribute) and n.func.attr == 'get' and is_table(n.func.value))
        if is_lookup:
            lookups += 1
            par = getattr(n, '_parent', None)
            if isinstance(par, ast.Assign) and isinstance(par.targets[0], ast.Name):
                looked.add(par.targets[0].id)
            if isinstance(par, ast.NamedExpr) and isinstance(par.target, ast.Name):
                looked.add(par.target.id)
    def in_keyerror_try(n):
        cur, child = getattr(n, '_parent', None), n
        while cur is not None and not isinstance(cur, (ast.FunctionDef, ast.Lambda)):
            if isinstance(cur, ast.Try) and any(child is s_ for s_ in cur.body):
                for h in cur.handlers:
                    names = [dotted(e_) for e_ in (h.type.elts if isinstance(h.type, ast.Tuple) else [h.type])] if h.type is not None else ['*']
                    # the handler leaves the field alone: it only moves on to the next field
                    if any(x in ('KeyError', 'LookupError', 'Exception', 'BaseException', '*') for x in names) \
                            and all(isinstance(b_, (ast.Continue, ast.Pass)) for b_ in h.body):
                        return True
            cur, child = getattr(cur, '_parent', None), cur
        return False
    guarded_lookups = [n for n in walk_regions() if isinstance(n, ast.Subscript) and isinstance(n.ctx, ast.Load) and is_table(n.value) and in_keyerror_try(n)]
    member = [n for n in walk_regions() if isinstance(n, ast.Compare) and len(n.ops) == 1 and isinstance(n.ops[0], (ast.NotIn, ast.In)) and is_table(n.comparators[0])]
    # any other use of the table (handed to a class / a call that is not followed, a bound method, a view): lookups may hide there
    other_uses = []
    for n in walk_regions():
        if isinstance(n, ast.Name) and isinstance(n.ctx, ast.Load) and is_table(n):
            par = getattr(n, '_parent', None)
            if isinstance(par, ast.Subscript) and par.value is n:
                continue
            if isinstance(par, ast.Attribute) and par.attr == 'get':
                continue
            if isinstance(par, ast.Compare) and any(c is n for c in par.comparators):
                continue
            if isinstance(par, ast.Call) and isinstance(par.func, ast.Name) and par.func.id in facts.funcs and id(facts.funcs[par.func.id]) in regions:
                continue                      # handed to a helper that is part of the analysed region
            if isinstance(par, ast.keyword) and isinstance(getattr(par, '_parent', None), ast.Call) and isinstance(par._parent.func, ast.Name) \
                    and par._parent.func.id in facts.funcs and id(facts.funcs[par._parent.func.id]) in regions:
                continue
            if isinstance(par, ast.Assign) and par.value is n:
                continue                      # alias = table: resolved by param_index
            other_uses.append(n)
    none_tests = [n for n in walk_regions() if isinstance(n, ast.Compare) and len(n.ops) == 1 and isinstance(n.ops[0], (ast.Is, ast.IsNot))
                  and isinstance(n.left, ast.Name) and n.left.id in looked and isinstance(n.comparators[0], ast.Constant) and n.comparators[0].value is None]
    truthy = []
    for n in walk_regions():
        tests = []
        if isinstance(n, (ast.If, ast.While, ast.IfExp)):
            tests.append(n.test)
        if isinstance(n, ast.comprehension):
            tests.extend(n.ifs)
        for t in tests:
            for x in ast.walk(t):
                bare_lookup = (isinstance(x, ast.Call) and isinstance(x.func, ast.Attribute) and x.func.attr == 'get' and is_table(x.func.value))
                if (isinstance(x, ast.Name) and x.id in looked) or bare_lookup:
                    par = getattr(x, '_parent', None)
                    if not isinstance(par, ast.Compare) and not (isinstance(par, ast.Call) and par is not x):
                        truthy.append(n if not isinstance(n, ast.comprehension) else t)
    keyg = [n for n in walk_regions() if isinstance(n, ast.Compare) and len(n.ops) == 1 and isinstance(n.ops[0], (ast.NotIn, ast.In))
            and not is_table(n.comparators[0]) and res.literal(n.comparators[0]) is not None and set(res.literal(n.comparators[0])) == regs]
    def iter_literal(it):
        """the literal field set an iteration is restricted to: the iterable itself or one side of an intersection"""
        if isinstance(it, ast.BinOp) and isinstance(it.op, ast.BitAnd):
            return iter_literal(it.left) or iter_literal(it.right)
        if isinstance(it, ast.Call) and isinstance(it.func, ast.Attribute) and it.func.attr == 'intersection' and len(it.args) == 1:
            return iter_literal(it.func.value) or iter_literal(it.args[0])
        if isinstance(it, ast.Call) and isinstance(it.func, ast.Name) and it.func.id == 'sorted' and len(it.args) == 1:
            return iter_literal(it.args[0])
        v_ = res.literal(it)
        return set(v_) if v_ else None
    iter_regs = [n for n in walk_regions() if isinstance(n, (ast.For, ast.comprehension)) and iter_literal(n.iter) == regs]
    for t in truthy:
        rep.fail(Finding('R11.3.lookup', 'resolve_register_aliases', t,
                         'whether a register field names a constant is decided by the truthiness of the looked-up value: a constant equal to 0 (an alias of x0, a zero shift amount) is '
                         'treated as "not a constant" and left unsubstituted', line=t.lineno))
    if not truthy:
        if lookups and (member or none_tests or guarded_lookups) and (keyg or iter_regs):
            rep.ok('R11.3.lookup', 'a register field that names a constant is replaced by constants[name], others untouched')
        elif not lookups and other_uses:
            und.append('resolve_register_aliases: the constants table is used through `{}` (line {}), which is not followed to a lookup'.format(
                unparse(getattr(other_uses[0], '_parent', other_uses[0]))[:50], other_uses[0].lineno))
        elif not lookups:
            rep.fail(Finding('R11.3.lookup', 'resolve_register_aliases', ra, 'alias resolution no longer looks register fields up in the constants table', line=ra.lineno),
                     instance='a register field that names a constant is replaced by constants[name], others untouched')
        else:
            und.append('resolve_register_aliases: how a field is recognised as naming a constant is not understood')
    try:
        encprops.check_rebuild_invariant(rep, facts, 'R11.3.rebuild-invariant')
    except AnalysisError as e:
        und.append(str(e))
    return regs


def check_register_text(rep, facts, regs, und):
    """R11.4: after resolve_register_aliases a register field may hold an int (the value of a constant) and is interpreted through
    the register table; wherever such a field is re-wrapped as an expression (`Arithmetic(...)`: the shift amount of a compressed
    shift) it must be normalised through lookup_register and turned into text, because Arithmetic.eval works on str only and
    evaluates in an environment without the register table.  Decided on every Arithmetic(...) construction of the module whose
    argument mentions a register field (attribute access, getattr, or a field name handed to a lookup helper)."""
    defs = {}
    for n in ast.walk(facts.tree):
        if isinstance(n, ast.FunctionDef):
            defs.setdefault(n.name, []).append(n)

    def looks_up(name, depth=0):
        """does a function of that name hand (something derived from) its parameters to lookup_register?"""
        if name == 'lookup_register':
            return True
        if depth > 2:
            return False
        for d in defs.get(name, []):
            for c in ast.walk(d):
                if isinstance(c, ast.Call) and isinstance(c.func, ast.Name) and c.func.id != name and looks_up(c.func.id, depth + 1):
                    return True
        return False

    def mentions(node):
        out = []
        for x in ast.walk(node):
            if isinstance(x, ast.Attribute) and x.attr in regs and isinstance(x.ctx, ast.Load):
                out.append(x)
            elif isinstance(x, ast.Constant) and isinstance(x.value, str) and x.value in regs and isinstance(getattr(x, '_parent', None), ast.Call):
                out.append(x)
        return out

    def textual(node, depth=0):
        if isinstance(node, ast.Call) and isinstance(node.func, ast.Name) and node.func.id in ('str', 'repr', 'format') and node.args:
            return True
        if isinstance(node, ast.Call) and isinstance(node.func, ast.Name) and len(defs.get(node.func.id, [])) == 1 and depth < 2:
            # a helper whose every return is such a text
            rets = [r for r in walk_no_nested(defs[node.func.id][0]) if isinstance(r, ast.Return)]
            return bool(rets) and all(r.value is not None and textual(r.value, depth + 1) for r in rets)
        if isinstance(node, ast.Call) and isinstance(node.func, ast.Attribute) and node.func.attr == 'format' and isinstance(node.func.value, ast.Constant):
            return True
        if isinstance(node, ast.JoinedStr):
            return True
        return isinstance(node, ast.BinOp) and isinstance(node.op, ast.Mod) and isinstance(node.left, ast.Constant) and isinstance(node.left.value, str)

    n = 0
    for fn in [d for ds in defs.values() for d in ds]:
        res = None
        for call in walk_no_nested(fn):
            if not (isinstance(call, ast.Call) and isinstance(call.func, ast.Name) and call.func.id == 'Arithmetic' and len(call.args) == 1):
                continue
            arg = call.args[0]
            # a local bound once is read through
            seen = 0
            while isinstance(arg, ast.Name) and seen < 3:
                res = res or Resolver(facts, fn)
                b = res.binds.get(arg.id)
                if not b or len(b) != 1 or b[0] is None:
                    break
                arg = b[0]
                seen += 1
            # a helper that hands its argument back unchanged is the argument
            seen = 0
            while isinstance(arg, ast.Call) and isinstance(arg.func, ast.Name) and len(defs.get(arg.func.id, [])) == 1 and len(arg.args) == 1 \
                    and not arg.keywords and seen < 3:
                h = defs[arg.func.id][0]
                rets = [r for r in walk_no_nested(h) if isinstance(r, ast.Return)]
                hp = [a.arg for a in h.args.posonlyargs + h.args.args]
                if len(hp) == 1 and rets and all(isinstance(r.value, ast.Name) and r.value.id == hp[0] for r in rets) \
                        and not any(isinstance(x, ast.Name) and x.id == hp[0] and isinstance(x.ctx, ast.Store) for x in ast.walk(h)):
                    arg = arg.args[0]
                    seen += 1
                else:
                    break
            ms = mentions(arg)
            if not ms:
                continue
            n += 1
            inst = '{}: Arithmetic({})'.format(fn.name, unparse(arg)[:50])

            def normalised(m):
                cur = m
                while cur is not arg and cur is not None:
                    cur = getattr(cur, '_parent', None)
                    if isinstance(cur, ast.Call) and isinstance(cur.func, ast.Name) and looks_up(cur.func.id):
                        return True
                return False
            if textual(arg) and all(normalised(m) for m in ms):
                rep.ok('R11.4.imm', inst + ' (normalised through lookup_register, as text)')
            elif isinstance(arg, ast.Attribute) or (isinstance(arg, ast.Call) and isinstance(arg.func, ast.Name) and arg.func.id == 'getattr'):
                rep.fail(Finding('R11.4.imm', fn.name, call,
                                 'the value held in a register field is re-wrapped as Arithmetic({}): after resolve_register_aliases the field may be an int '
                                 '(Arithmetic.eval calls str methods on it) and a register-name spelling that lookup_register accepts is evaluated in an '
                                 'environment without the register table: a constant used as a shift amount breaks under -c'.format(unparse(arg)),
                                 line=call.lineno), instance=inst)
            else:
                und.append('representation of {} is not understood'.format(inst))
    rep.analysed['register fields re-wrapped as expressions'] = n


def check_modifiers(rep, facts, und):
    """R11.5: a constant inside %hi / %lo / %position reaches the same Arithmetic.eval."""
    fn = facts.funcs.get('parse_immediate')
    if fn is None:
        raise AnalysisError('anchor vanished: parse_immediate')
    w = XWalker(facts)
    st = PathState()
    for a in fn.args.args + fn.args.kwonlyargs:
        st.env[a.arg] = ('name', a.arg)
    seen = set()

    def is_expression(v):
        """an expression object built like any other: a recursive parse or Arithmetic(text)"""
        return (v[0] == 'call' and v[1] == 'parse_immediate') or (v[0] == 'new' and v[1] == 'Arithmetic' and len(v[2]) == 1)
    for p in w.run(fn.body, st):
        if p.end != 'return':
            continue
        ret = [e for e in p.events if e[0] == 'return'][-1]
        v, node = ret[1], ret[2]
        if v[0] == 'call' and v[1] == 'parse_immediate':
            continue
        if v[0] == 'call' and v[1] in facts.funcs and not any(a[0] == 'star' for a in v[2]):
            # the arm is a helper (one parser per modifier): what it returns
            r_ = w.eval_fn(facts.funcs[v[1]], v[2], v[3], p, {})
            if r_ is not None:
                v = r_
        if v[0] == 'ifexp' and all(x[0] == 'new' for x in (v[2], v[3])):
            v = v[2]
        if v[0] != 'new' or not facts.is_subclass(v[1], 'Expr'):
            und.append('parse_immediate returns something that is not an expression object: {}'.format(show(v)[:60]))
            continue
        cls = v[1]
        seen.add(cls)
        if cls == 'Arithmetic':
            rep.ok('R11.5.modifiers', 'a plain immediate becomes Arithmetic(text)')
            # the text evaluated is the operand's tokens, all of them, in order: dropping or reordering tokens changes the expression
            arg = v[2][0] if v[2] else None
            while arg is not None and arg[0] == 'mcall' and arg[2] == 'strip' and not arg[3] and not arg[4]:
                arg = arg[1]                    # blanks at the ends of the text mean nothing to eval()
            params = [a.arg for a in fn.args.args]
            tok = ('name', params[0]) if params else None
            if arg is not None and arg[0] == 'mcall' and arg[2] == 'join' and len(arg[3]) == 1 and is_const(arg[1]) and isinstance(arg[1][1], str):
                src = arg[3][0]
                if src[0] == 'comp' and not src[5] and src[3] and ',' not in src[3] and \
                        src[2] in (('var', src[3]), ('call', 'str', (('var', src[3]),), ())):
                    src = src[4]                 # [t for t in X] / (str(t) for t in X): every element of X, in order (tokens are text)
                whole = src == tok
                partial = src != tok and IS.contains(src, tok) and src[0] in ('slice', 'unpack', 'sub')
                if whole:
                    rep.check(arg[1][1].strip() == '', 'R11.5.text', 'the expression text is the operand tokens joined by blanks',
                              lambda node=node, arg=arg: Finding('R11.5.text', 'parse_immediate', node, 'the operand tokens are joined with {!r}: the text evaluated is not the expression that was written'.format(arg[1][1]), line=node.lineno),
                              nontrivial=False)
                elif partial:
                    rep.fail(Finding('R11.5.text', 'parse_immediate', node,
                                     'only part of the operand tokens ({}) is evaluated: tokens of the written expression are dropped (e.g. the outer parentheses of "(A + 1) * (B - 1)")'.format(show(src)[:60]),
                                     line=node.lineno), instance='expression text')
                else:
                    und.append('parse_immediate: the text handed to Arithmetic is built from {} (not understood)'.format(show(src)[:60]))
            elif arg is not None:
                und.append('parse_immediate: the text handed to Arithmetic is {} (not understood)'.format(show(arg)[:60]))
            continue
        fields = stored_fields(facts, cls)
        inner = [v[2][i] for attr, i in fields.items() if i < len(v[2]) and facts.classes[cls].methods.get('eval') is not None
                 and any(isinstance(n, ast.Attribute) and n.attr == attr and isinstance(getattr(n, '_parent', None), ast.Attribute) and n._parent.attr == 'eval'
                         for n in ast.walk(facts.classes[cls].methods['eval']))]
        # `inner`: constructor arguments stored in a field on which the class's eval() calls .eval(...) again (nested expressions)
        for x in inner:
            rep.check(is_expression(x), 'R11.5.modifiers', '{}: inner expression parsed recursively / as Arithmetic'.format(cls),
                      lambda node=node, cls=cls: Finding('R11.5.modifiers', 'parse_immediate', node, 'the expression inside {} is not evaluated like any other expression'.format(cls), line=node.lineno),
                      nontrivial=False)
    missing = {'Arithmetic', 'Hi', 'Lo', 'Position'} - seen
    if missing:
        und.append('parse_immediate: no return path builds {}'.format(sorted(missing)))
    rep.analysed['expression classes built by parse_immediate'] = len(seen)
    for cls in ('Hi', 'Lo', 'Position'):
        if cls not in facts.classes:
            raise AnalysisError('anchor vanished: class {}'.format(cls))
        m, paths = method_paths(facts, cls, 'eval')
        params = [a.arg for a in m.args.args]
        want = tuple(('name', p) for p in params[1:])
        fields = stored_fields(facts, cls)
        inner = set()
        for p in paths:
            for ev in p.events:
                for t in IS.find_all(ev[1:-1], lambda t: t[0] == 'mcall' and t[2] == 'eval' and t[1][0] == 'attr' and t[1][1] == ('name', params[0]) and t[1][2] in fields):
                    inner.add(t)
        bound = [tuple(eval_argument(facts, t, i_) for i_ in range(EXPR_EVAL_PARAMS)) for t in inner]
        if any(('unknown',) in b for b in bound):
            und.append('{}.eval: the arguments of the inner evaluation are not read'.format(cls))
            continue
        if not inner and any(IS.contains(ev[1:-1], ('name', params[2])) for p in paths for ev in p.events if len(params) > 2):
            und.append('{}.eval hands its environment to something that is not read as the evaluation of a stored inner expression'.format(cls))
            continue
        ok = bool(inner) and all(b == want for b in bound)
        rep.check(ok, 'R11.5.modifiers', '{}.eval evaluates its inner expression in the same environment'.format(cls),
                  lambda cls=cls, m=m: Finding('R11.5.modifiers', cls + '.eval', m, '{} does not evaluate its inner expression with the position / environment / line it was given'.format(cls), line=m.lineno),
                  nontrivial=False)


def run(repo, tier):
    facts = Facts(repo.asm)
    rep = Report('C11', LEVEL,
                 'Structural clauses of constant evaluation and substitution: every value returned by Arithmetic.eval passed the exact-int '
                 'test (or is ord of a character literal) and eval runs on the stored text with builtins pinned off; constants are evaluated '
                 'in definition order over ChainMap(constants, REGISTERS) and stored under their own name, shadowing of registers refused, '
                 'and the pass that fills the table precedes every other pass that receives it; register aliases are resolved before every '
                 'consumer of register fields, in exactly the register-kinded fields (derived from the encoder summaries), by a positional '
                 'rebuild under the rebuild invariant; a register field moved into an immediate on the -c path keeps representation and '
                 'environment; constants inside %hi/%lo/%position reach the same evaluator.  Pass order and table positions come from an '
                 'abstract evaluation of assemble (passorder), helper methods / functions are inlined on the analysed paths.')
    rep.trusted_base = ['CPython ast', 'Python eval() arithmetic on int literals and operators', 'bbverif.pathwalk / wiring / passorder']
    rep.not_decided = ['the arithmetic itself (precedence, //, %, ~, shifts): delegated to Python eval, trusted',
                       'the effect of the tokenizer on expression text: splitting on whitespace/commas and paren padding is transparent for numbers and operators but not for '
                       'character literals (\',\' evaluates to 32; \'#\', \'(\', \')\' are refused): value semantics of regex/string processing on particular inputs']
    und = []
    try:
        pipe = Pipeline(facts)
    except AnalysisError as e:
        # the rules that do not need the pass order still run: a violation they establish is not masked
        pipe = None
        und.append(str(e))

    def guarded(f, *args):
        try:
            f(*args)
        except AnalysisError as e:
            und.append(str(e))
    guarded(check_integer_results, rep, facts, und)
    regs = []
    if pipe is not None:
        guarded(check_constants_pass, rep, facts, pipe, und)
        guarded(check_envs, rep, facts, pipe, und)
        guarded(lambda: regs.append(check_aliases(rep, facts, pipe, und)))
    if regs and regs[0]:
        guarded(check_register_text, rep, facts, regs[0], und)
    guarded(check_modifiers, rep, facts, und)

    def literal_blind():
        # a compression rule that asks how the operand is spelled treats `addi t0, a0, ZERO` unlike `addi t0, a0, 0`
        from ..comprel import CompRel, check_literal_blind
        check_literal_blind(rep, CompRel(facts), 'R11.6.literal-blind')
    guarded(literal_blind)

    def expression_text():
        # the expression that is evaluated is the expression that was written: the lexer may only cut the line at `#`; a comment
        # pattern that can also start elsewhere (`//`, `;`) removes operators of the expression (`100 // 7` becomes `100`).
        # The rule is the lexer rule of C13; its findings about the comment substitution are taken over under R11.7
        from .. import lexrules
        scratch = Report('C11', LEVEL, '')
        lexrules.check_lexer(scratch, facts)
        for f in scratch.findings:
            if f.rule == 'R13.4.comment-start':
                f.rule = 'R11.7.expression-text'
                rep.fail(f, instance='comments start at # only')
        if not any(f.rule == 'R11.7.expression-text' for f in rep.findings):
            rep.ok('R11.7.expression-text', 'comments start at # only (no operator of an expression is cut away)', nontrivial=False)
    guarded(expression_text)
    if und and not rep.findings:
        raise AnalysisError(und[0] + (' (+{} more)'.format(len(set(und)) - 1) if len(set(und)) > 1 else ''))
    rep.floor('Arithmetic.eval return paths', 2)
    rep.floor('sandboxed evaluations', 1)
    rep.floor('constant definition paths', 1)
    rep.floor('passes that receive the constants table', 3)
    rep.floor('passes with a label environment', 2)
    rep.floor('register fields re-wrapped as expressions', 1)
    return rep
