"""C14 - include is textual splicing, resolved independently of the working directory."""
import ast

from ..core import Report, Finding, AnalysisError
from ..facts import Facts
from ..astutil import unparse, dotted, walk_no_nested
from ..callgraph import CallGraph
from ..prov import Prov
from ..pathwalk import loop_paths, show, is_const, C
from .c16 import reachable, getcwd_allowed

LEVEL = 'other'


def check_sinks(rep, facts, cg, pv, rule):
    reach = sorted(reachable(cg, 'assemble'))
    sinks = pv.sinks(reach)
    rep.analysed['filesystem sinks reachable from assemble'] = len(sinks)
    for q, node, name, arg in sinks:
        k = pv.kind(arg, q)
        ok = k in ('Resolved', 'UserGiven')
        rep.check(ok, rule, '{}: {}({}) receives a {} path'.format(q, name, unparse(arg), k),
                  lambda q=q, node=node, name=name, arg=arg, k=k: Finding(rule, q, node,
                                                                          '{}({}) is given a path of kind {}: text taken from the source line is resolved against the process working directory, '
                                                                          'not against the including file or the -i directories'.format(name, unparse(arg), k), line=node.lineno))
    for q in reach:
        for n in walk_no_nested(cg.funcs[q]):
            if isinstance(n, ast.Call) and dotted(n.func) == 'os.getcwd':
                rep.check(getcwd_allowed(cg.funcs[q], n), rule + '.cwd', '{}: os.getcwd() only when the input is a source string'.format(q),
                          lambda q=q, n=n: Finding(rule + '.cwd', q, n, 'the working directory takes part in resolving includes of a *file*', line=n.lineno))
    return sinks


def check_reader(rep, facts, cg, pv):
    fn = facts.funcs.get('read_lines')
    if fn is None:
        raise AnalysisError('anchor vanished: read_lines')
    # R14.2 recursion
    rec = [n for n in ast.walk(fn) if isinstance(n, ast.Call) and dotted(n.func) == 'read_lines']
    rep.analysed['recursive include calls'] = len(rec)
    params = [a.arg for a in fn.args.args]
    for c in rec:
        k = pv.kind(c.args[0], 'read_lines') if c.args else 'Unknown'
        kws = {kw.arg: kw.value for kw in c.keywords}
        inc = kws.get('include')
        dirs = kws.get('include_dirs')
        # the search list handed down must be the caller's own include_dirs, untouched: a list that already holds this file's
        # directory would make nested files search their ancestors' directories
        dirs_param = next((a.arg for a in fn.args.args + fn.args.kwonlyargs if a.arg == 'include_dirs'), None)
        rebound = [n for n in ast.walk(fn) if isinstance(n, ast.Name) and n.id == dirs_param and isinstance(n.ctx, ast.Store)]
        mutated = [n for n in ast.walk(fn) if isinstance(n, ast.Call) and isinstance(n.func, ast.Attribute) and isinstance(n.func.value, ast.Name)
                   and n.func.value.id == dirs_param and n.func.attr in ('append', 'extend', 'insert', 'remove', 'pop', 'clear', 'sort', 'reverse')]
        mutated += [n for n in ast.walk(fn) if isinstance(n, ast.AugAssign) and isinstance(n.target, ast.Name) and n.target.id == dirs_param]
        untouched = dirs is not None and isinstance(dirs, ast.Name) and dirs.id == dirs_param and not rebound and not mutated
        ok = k == 'Resolved' and isinstance(inc, ast.Constant) and inc.value is True and untouched
        rep.check(ok, 'R14.2.recursion', 'included file is read by its resolved path, include=True, same include_dirs',
                  lambda c=c, k=k: Finding('R14.2.recursion', 'read_lines', c,
                                           'the recursive read passes a {} path / does not pass include=True / changes include_dirs: nested includes are not resolved like top-level ones'.format(k), line=c.lineno))
    # adjacent directory derived from the including file's path
    dirs_built = [n for n in ast.walk(fn) if isinstance(n, ast.Call) and isinstance(n.func, ast.Attribute) and n.func.attr in ('append', 'add', 'insert')
                  and isinstance(n.func.value, ast.Name) and 'dirs' in n.func.value.id]
    good = False
    for n in dirs_built:
        if n.args and pv.kind(n.args[0], 'read_lines') == 'Dir':
            # must be dirname(abspath(<the file being read>)) on the path branch
            defs = [st for st in ast.walk(fn) if isinstance(st, ast.Assign) and isinstance(st.targets[0], ast.Name) and st.targets[0].id == unparse(n.args[0])]
            exprs = [unparse(d.value) for d in defs]
            if any('os.path.dirname(os.path.abspath({}))'.format(params[0]) == e for e in exprs):
                good = True
    rep.check(good, 'R14.2.adjacent', 'the directory of the including file is always searched',
              lambda: Finding('R14.2.adjacent', 'read_lines', fn, 'the search path does not contain the directory of the file being read', line=fn.lineno))
    # the search list starts from the caller's include_dirs (copied, never mutated in place)
    cur = [st for st in ast.walk(fn) if isinstance(st, ast.Assign) and isinstance(st.targets[0], ast.Name) and 'dirs' in st.targets[0].id]
    copied = any('include_dirs' in unparse(st.value) and ('deepcopy' in unparse(st.value) or 'list(' in unparse(st.value) or 'set(' in unparse(st.value) or 'tuple(' in unparse(st.value) or '+' in unparse(st.value) or '[:]' in unparse(st.value)) for st in cur)
    rep.check(copied, 'R14.2.dirs-copied', 'the per-file search list is a copy of include_dirs',
              lambda: Finding('R14.2.dirs-copied', 'read_lines', cur[0] if cur else fn, 'the caller\'s include_dirs list is extended in place: directories leak from one file to the next', line=fn.lineno))
    # lookup: first existing join(dir, name) in order
    lk = cg.funcs.get('read_lines.lookup')
    if lk is not None:
        rets = [n for n in ast.walk(lk) if isinstance(n, ast.Return) and n.value is not None and not (isinstance(n.value, ast.Constant) and n.value.value is None)]
        k = [pv.kind(r.value, 'read_lines.lookup') for r in rets]
        rep.check(bool(rets) and all(x == 'Resolved' for x in k), 'R14.1.lookup', 'lookup returns join(search dir, name)',
                  lambda: Finding('R14.1.lookup', 'read_lines.lookup', rets[0] if rets else lk, 'the include search returns a path of kind {}'.format(k), line=lk.lineno))
    # R14.3 splice in place
    _, loop, paths = loop_paths(facts, fn)
    n_inc = 0
    for p in paths:
        if p.end == 'raise':
            continue
        apps = [e for e in p.events if e[0] == 'mcall' and e[2] in ('append', 'extend', 'insert') and e[1][0] in ('lv', 'name')]
        calls = [e for e in p.events if e[0] == 'value' and e[1][0] == 'call' and e[1][1] == 'read_lines']
        if calls:
            n_inc += 1
            ok = len(apps) == 1 and apps[0][2] == 'extend' and apps[0][3][0] == calls[0][1]
            rep.check(ok, 'R14.3.splice', 'include path: lines.extend(lines of the included file) at the position of the include line',
                      lambda p=p: Finding('R14.3.splice', 'read_lines', calls[0][2], 'the lines of an included file are not spliced in at the position of the include line', line=calls[0][2].lineno))
        elif p.end in ('fallthrough',) and apps:
            ok = all(a[2] == 'append' for a in apps) and len(apps) == 1
            rep.check(ok, 'R14.3.splice', 'ordinary line: appended once, in order',
                      lambda: Finding('R14.3.splice', 'read_lines', apps[0][5], 'source lines are not appended exactly once in order', line=apps[0][5].lineno), nontrivial=False)
    rep.analysed['include paths through the reader loop'] = n_inc
    bad = [n for n in ast.walk(fn) if isinstance(n, ast.Call) and isinstance(n.func, ast.Attribute) and n.func.attr in ('insert', 'sort', 'reverse')
           and isinstance(n.func.value, ast.Name) and n.func.value.id == 'lines']
    rep.check(not bad, 'R14.3.order', 'lines list built by append/extend only',
              lambda: Finding('R14.3.order', 'read_lines', bad[0], 'the line list is reordered', line=bad[0].lineno), nontrivial=False)
    # include detection strips comments / quotes before resolving (name only)
    # the include line itself is not kept
    for p in paths:
        calls = [e for e in p.events if e[0] == 'value' and e[1][0] == 'call' and e[1][1] == 'read_lines']
        if calls:
            kept = [e for e in p.events if e[0] == 'mcall' and e[2] == 'append' and e[3] and e[3][0][0] == 'new' and e[3][0][1] == 'Line']
            rep.check(not kept, 'R14.3.splice', 'the include line itself contributes no line',
                      lambda: Finding('R14.3.splice', 'read_lines', calls[0][2], 'the include line is kept in addition to the included text', line=calls[0][2].lineno), nontrivial=False)


def check_cli(rep, facts):
    fn = facts.funcs.get('cli_main')
    if fn is None:
        raise AnalysisError('anchor vanished: asm.cli_main')
    src = unparse(fn)
    calls = [n for n in ast.walk(fn) if isinstance(n, ast.Call) and dotted(n.func) == 'assemble']
    if not calls:
        raise AnalysisError('anchor vanished: assemble call in cli_main')
    c = calls[0]
    arg0 = c.args[0]
    defs = [st.value for st in ast.walk(fn) if isinstance(st, ast.Assign) and isinstance(st.targets[0], ast.Name) and isinstance(arg0, ast.Name) and st.targets[0].id == arg0.id]
    ok = bool(defs) and all(isinstance(d, ast.Call) and dotted(d.func) == 'os.path.abspath' for d in defs)
    rep.check(ok, 'R14.4.cli', 'the input path is made absolute before assembling',
              lambda: Finding('R14.4.cli', 'cli_main', c, 'the input path is handed to assemble() without os.path.abspath', line=c.lineno))
    apps = [n for n in ast.walk(fn) if isinstance(n, ast.Call) and isinstance(n.func, ast.Attribute) and n.func.attr == 'append'
            and isinstance(n.func.value, ast.Name) and n.func.value.id == 'include_dirs']
    for a in apps:
        arg = a.args[0]
        good = isinstance(arg, ast.Call) and dotted(arg.func) == 'os.path.abspath'
        if isinstance(arg, ast.Name):
            d2 = [st.value for st in ast.walk(fn) if isinstance(st, ast.Assign) and isinstance(st.targets[0], ast.Name) and st.targets[0].id == arg.id]
            good = bool(d2) and all('__file__' in unparse(x) and 'abspath' in unparse(x) or ('os.path.join' in unparse(x)) for x in d2)
            if good:
                roots = [st.value for st in ast.walk(fn) if isinstance(st, ast.Assign) and isinstance(st.targets[0], ast.Name) and st.targets[0].id == 'root']
                good = bool(roots) and all('__file__' in unparse(x) and 'abspath' in unparse(x) for x in roots)
        rep.check(good, 'R14.4.cli', 'include dir `{}` is absolute'.format(unparse(arg)),
                  lambda a=a: Finding('R14.4.cli', 'cli_main', a, 'an include directory is stored relative to the working directory (no abspath / not derived from __file__)', line=a.lineno))
    rep.analysed['cli include dir sources'] = len(apps)


def run(repo, tier):
    facts = Facts(repo.asm)
    rep = Report('C14', LEVEL,
                 'cwd-sensitivity effect analysis: every filesystem call reachable from assemble() is classified by the provenance kind of '
                 'its path argument (Resolved = search dir joined with the name; UserGiven = the caller\'s own path; RawToken = text from '
                 'the source line); only the first two may reach a sink, and os.getcwd() may be consulted only on the source-string branch.  '
                 'The recursive read passes the resolved path, include=True and unchanged include_dirs; the adjacent directory is derived '
                 'from the including file at each depth; included lines are spliced at the position of the include line (append/extend only); '
                 'the CLI makes the input path and every -i directory absolute.')
    rep.trusted_base = ['CPython ast', 'bbverif.prov kind rules', 'bbverif.callgraph / pathwalk']
    rep.not_decided = ['equality of the resulting binaries / labels / constants (follows from splice order + purity of later passes, C16, not re-proved end to end)',
                       'which directory wins when the same name exists in several']
    cg = CallGraph(facts)
    pv = Prov(facts, cg)
    check_sinks(rep, facts, cg, pv, 'R14.1.provenance')
    check_reader(rep, facts, cg, pv)
    check_cli(rep, facts)
    rep.floor('filesystem sinks reachable from assemble', 5)
    rep.floor('recursive include calls', 1)
    rep.floor('include paths through the reader loop', 1)
    rep.floor('cli include dir sources', 2)
    return rep
