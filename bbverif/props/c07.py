"""C07 - %hi / %lo always split a value so that the consuming pair rebuilds it."""
import ast

from ..core import Report, Finding, AnalysisError
from ..facts import Facts
from ..astutil import unparse, dotted
from .. import relocdom as R
from ..encsum import all_summaries, derived_operand, canon, show_cells
from ..wiring import chain_outcomes
from .. import immsites as IS

LEVEL = 'proof'


def sres_to_lin(x):
    """Exact linear form of a signed residue when its sign bit is a single atom."""
    if isinstance(x, R.Lin):
        return x
    if isinstance(x, R.SRes):
        b = R.bit_of_lin(x.lin, x.m - 1, strict=False)
        lo, hi = x.lin.range()
        if b is not None and lo is not None and lo >= 0 and hi <= (1 << x.m) - 1:
            return x.lin - b.scale(2)
    return None


def _subst(term, mapping):
    if isinstance(term, tuple):
        if term in mapping:
            return mapping[term]
        return tuple(_subst(x, mapping) for x in term)
    return term


def _strip(v):
    while isinstance(v, tuple) and v and v[0] == 'res':
        v = v[3]
    return v


def eval_method_rule(rep, facts, cls, reloc, rule, others=()):
    """Hi.eval / Lo.eval return reloc(<value of the wrapped expression evaluated with the same position, env, line>), on every path.
    Decided on the symbolic return values of the method (pathwalk; locals, helper methods, class-level / module-level aliases of
    the relocation function, keyword arguments and the name of the attribute holding the wrapped expression do not matter).  A
    finding needs a return value that is positively something else: the other relocation, no relocation at all, another position /
    environment; whatever is not followed ends without verdict."""
    from ..packrule import function_paths, subterms
    from ..pathwalk import show
    ci = facts.classes.get(cls)
    owner, m = facts.method(cls, 'eval') if ci is not None else (None, None)
    if m is None or any(d for d in m.decorator_list):
        raise AnalysisError('anchor vanished: {}.eval'.format(cls))
    a = m.args
    if a.vararg or a.kwarg or a.kwonlyargs or a.posonlyargs or len(a.args) != 4:
        raise AnalysisError('{}.eval: signature is not (self, position, env, line)'.format(cls))
    me = ('name', a.args[0].arg)
    params = [('name', x.arg) for x in a.args[1:]]
    # the attribute that holds the wrapped expression: the one __init__ stores its (only) operand parameter into
    iparams = [p for p, _ in facts.init_params(cls)]
    order = facts.attr_order_detailed(cls) if hasattr(facts, 'attr_order_detailed') else [(x, y, 'identity') for x, y in facts.full_attr_order(cls)]
    holders = [attr for attr, src, how in order if iparams and src == iparams[0] and how == 'identity']
    if len(iparams) != 1 or len(holders) != 1 or not facts.init_understood(cls):
        raise AnalysisError('{}: which attribute holds the wrapped expression is not understood (constructor parameters {})'.format(cls, iparams))
    inner_attr = ('attr', me, holders[0])
    # the signature the inner call is matched against: Expr.eval(self, position, env, line) of the base class (keyword names)
    _, base_eval = facts.method('Expr', 'eval') if 'Expr' in facts.classes else (None, None)
    kwnames = [x.arg for x in (base_eval or m).args.args[1:]]
    relocs = {reloc} | set(others)

    def alias_of(name, depth=0):
        """module-level `name = f` (a second name for a function): the function's name"""
        st = facts.assign_nodes.get(name)
        if depth < 4 and name not in facts.funcs and isinstance(st, ast.Assign) and isinstance(st.value, ast.Name):
            return alias_of(st.value.id, depth + 1)
        return name

    def class_member(attr):
        for c in facts.mro(cls):
            cnode = facts.classes[c].node
            for st in cnode.body:
                if isinstance(st, ast.FunctionDef) and st.name == attr:
                    return st
                if isinstance(st, ast.Assign) and any(isinstance(t, ast.Name) and t.id == attr for t in st.targets):
                    return st.value
        return None

    def resolve(v, depth=0):
        """Normal form of a returned value: ('reloc', function name, argument) | ('inner', args, kwargs) | the term itself."""
        v = _strip(v)
        if not isinstance(v, tuple) or not v or depth > 6:
            return v
        if v[0] == 'call' and len(v[2]) == 1 and not v[3] and v[2][0][0] != 'star':
            fn = alias_of(v[1])
            if fn in facts.funcs:
                return ('reloc', fn, resolve(v[2][0], depth + 1))
        if v[0] == 'mcall' and _strip(v[1]) in (me, ('call', 'type', (me,), ()), ('attr', me, '__class__')):
            member = class_member(v[2])
            if isinstance(member, ast.FunctionDef):
                deco = [dotted(d) for d in member.decorator_list]
                if deco in ([], ['staticmethod']) and not v[4] and not any(x[0] == 'star' for x in v[3]):
                    margs = member.args.args if deco else member.args.args[1:]
                    if len(margs) == len(v[3]) and not (member.args.vararg or member.args.kwarg or member.args.kwonlyargs):
                        _, mpaths = function_paths(facts, member)
                        rets = [p.events[-1][1] for p in mpaths if p.end == 'return' and p.events and p.events[-1][0] == 'return']
                        if len(rets) == 1 and len(mpaths) == 1:
                            mapping = {('name', x.arg): y for x, y in zip(margs, v[3])}
                            if not deco:
                                mapping[('name', member.args.args[0].arg)] = me
                            return resolve(_subst(_strip(rets[0]), mapping), depth + 1)
            elif member is not None:
                if isinstance(member, ast.Call) and dotted(member.func) == 'staticmethod' and len(member.args) == 1:
                    member = member.args[0]
                if isinstance(member, ast.Name) and len(v[3]) == 1 and not v[4]:
                    fn = alias_of(member.id)
                    if fn in facts.funcs:
                        return ('reloc', fn, resolve(v[3][0], depth + 1))
        if v[0] == 'mcall' and _strip(v[1]) == inner_attr and v[2] == 'eval':
            if any(x[0] == 'star' for x in v[3]) or any(n is None for n, _ in v[4]):
                return v
            bound = dict(zip(kwnames, v[3]))
            for n, x in v[4]:
                if n in bound or n not in kwnames:
                    return v
                bound[n] = x
            if set(bound) == set(kwnames):
                return ('inner', tuple(_strip(bound[k]) for k in kwnames))
        return v

    def semantic(why):
        """The method computes its result in a way the path rule does not follow (the relocation inlined, another helper): its body
        is evaluated as arithmetic over the value of the wrapped expression.  A counterexample on the sample inputs is a finding, a
        proof by linear forms a pass, anything else no verdict."""
        spec = R.hi_spec if reloc == 'relocate_hi' else R.lo_spec
        pnames = [x.arg for x in a.args[1:]]

        def is_inner(node):
            return (isinstance(node, ast.Call) and isinstance(node.func, ast.Attribute) and node.func.attr == 'eval'
                    and unparse(node.func.value) == '{}.{}'.format(me[1], holders[0]) and not node.keywords
                    and [unparse(x) for x in node.args] == pnames)
        try:
            cex = R.counterexample(facts, m.body, lambda x: {'__v': x}, spec, call_hook=lambda node, env: env['__v'] if is_inner(node) else None)
        except R.NotConcrete:
            cex = 'unknown'
        if cex is not None and cex != 'unknown':
            rep.fail(Finding(rule, cls + '.eval', 'counterexample',
                             '{}.eval does not compute {} of the inner value: for an inner value of {} it returns {} ({})'.format(
                                 cls, reloc, hex(cex[0]) if cex[0] >= 0 else cex[0], cex[1], cex[2]), line=m.lineno))
            return
        # no counterexample: try to prove it
        interp = R.Interp(facts)
        v = R.Lin.v()
        interp.call_hook = lambda node: v if is_inner(node) else None
        try:
            res = interp.block(list(m.body), {}, cls + '.eval', 0)
            X, mod, lo_, hi_ = R.congruence_and_range(res)
            if reloc == 'relocate_hi':
                want = R.shift_right(v, 12) + R.Lin({11: 1}, 0)
                ok = (mod is None or mod >= 20) and (X - want).congruent_zero(20) and lo_ is not None and lo_ >= -(1 << 19) and hi_ <= (1 << 19) - 1
            else:
                ok = (mod is None or mod >= 12) and (X - v).congruent_zero(12) and lo_ is not None and lo_ >= -2048 and hi_ <= 2047
        except AnalysisError:
            ok = None
        if ok:
            rep.ok(rule, '{}.eval computes {} of the inner value (arithmetic proved over all integers)'.format(cls, reloc))
            return
        raise AnalysisError(why)

    _, paths = function_paths(facts, m)
    rets = [p for p in paths if p.end == 'return']
    if not rets:
        raise AnalysisError('{}.eval: no returning path found'.format(cls))
    try:
        _judge_paths(rep, rets, resolve, cls, reloc, relocs, params, rule, m, show, subterms)
    except _NotFollowed as e:
        semantic(str(e))


class _NotFollowed(AnalysisError):
    pass


def _judge_paths(rep, rets, resolve, cls, reloc, relocs, params, rule, m, show, subterms):
    AnalysisError = _NotFollowed        # noqa: F841  (what the path rule does not follow is handed to the semantic fallback)
    for p in rets:
        if not p.events or p.events[-1][0] != 'return':
            raise AnalysisError('{}.eval: a path returns a value the walk does not follow'.format(cls))
        node = p.events[-1][-1]
        val = resolve(p.events[-1][1])
        bad = None
        if isinstance(val, tuple) and val and val[0] == 'inner':
            bad = 'returns the value of the wrapped expression without applying {}'.format(reloc)
        elif isinstance(val, tuple) and val and val[0] == 'reloc':
            fn, arg = val[1], val[2]
            if fn != reloc:
                if fn not in relocs or not (isinstance(arg, tuple) and arg and arg[0] == 'inner'):
                    # another function / the other relocation of something else: the arithmetic decides (semantic fallback)
                    raise AnalysisError('{}.eval: applies {} to {}'.format(cls, fn, show(_strip(p.events[-1][1]))[:60]))
                bad = 'applies {} instead of {}'.format(fn, reloc)
            elif isinstance(arg, tuple) and arg and arg[0] == 'inner':
                if list(arg[1]) != params:
                    # a different position / environment is a finding only when it is written in terms of the parameters
                    atoms = {t for x in arg[1] for t in subterms(x) if t[0] == 'name'}
                    if atoms <= set(params) and all(t[0] in ('name', 'bin', 'const', 'un') for x in arg[1] for t in subterms(x)):
                        bad = 'evaluates the wrapped expression with ({}) instead of ({})'.format(
                            ', '.join(show(x) for x in arg[1]), ', '.join(show(x) for x in params))
                    else:
                        raise AnalysisError('{}.eval: arguments of the inner evaluation are not followed: {}'.format(
                            cls, ', '.join(show(x) for x in arg[1])[:80]))
            else:
                raise AnalysisError('{}.eval: the argument of {} is not the evaluation of the wrapped expression: {}'.format(
                    cls, reloc, show(_strip(p.events[-1][1]))[:80]))
        else:
            raise AnalysisError('{}.eval: the returned value {} is not followed'.format(cls, show(_strip(p.events[-1][1]))[:80]))
        rep.check(bad is None, rule, '{}.eval == {}(inner.eval(position, env, line))'.format(cls, reloc),
                  lambda bad=bad, node=node: Finding(rule, cls + '.eval', node if isinstance(node, ast.AST) else m,
                                                     '{}.eval {}: it does not return {} of the inner expression evaluated at the same '
                                                     'position/env'.format(cls, bad, reloc), line=getattr(node, 'lineno', m.lineno)))


WORD_SAMPLES = [0, 1, 0x7ff, 0x800, 0x801, 0xfff, 0x1000, 0x7ffff7ff, 0x7ffff800, 0x7fffffff, 0x80000000, 0x800007ff, 0x80000800, 0xfffff7ff, 0xfffff800,
                0xffffffff, -1, -0x7ff, -0x800, -0x801, -0x1000, -0x7ffff800, -0x80000000]


class _FoldWord(ast.NodeTransformer):
    """c_uint32(x).value / c_int32(x).value of a constant x, so that astutil.fold can finish the job."""

    def visit_Attribute(self, node):
        self.generic_visit(node)
        if node.attr == 'value' and isinstance(node.value, ast.Call) and dotted(node.value.func) in ('c_uint32', 'ctypes.c_uint32', 'c_int32', 'ctypes.c_int32') \
                and len(node.value.args) == 1 and isinstance(node.value.args[0], ast.Constant) and isinstance(node.value.args[0].value, int):
            v = node.value.args[0].value & 0xffffffff
            if dotted(node.value.func).endswith('c_int32') and v & 0x80000000:
                v -= 1 << 32
            return ast.copy_location(ast.Constant(value=v), node)
        return node


def total_eval_rule(rep, facts, cls, rule):
    """%hi / %lo are defined for every 32-bit value (the property quantifies over all 2^32 of them, in every spelling): an eval()
    that raises for one of them refuses a valid operand.  Every `raise` in the method is examined under the tests that guard it,
    with the inner value bound to boundary values of the 32-bit range (a witness is a disproof; guards that cannot be folded give
    no verdict)."""
    import copy
    from ..astutil import fold, NotConstant
    owner, m = facts.method(cls, 'eval')
    if m is None:
        raise AnalysisError('anchor vanished: {}.eval'.format(cls))
    inner = None
    for n in ast.walk(m):
        if isinstance(n, ast.Assign) and len(n.targets) == 1 and isinstance(n.targets[0], ast.Name) and isinstance(n.value, ast.Call) \
                and isinstance(n.value.func, ast.Attribute) and n.value.func.attr == 'eval':
            inner = n.targets[0].id
    raises = [n for n in ast.walk(m) if isinstance(n, ast.Raise)]
    if not raises:
        rep.ok(rule, '{}.eval never refuses a value'.format(cls), nontrivial=False)
        return
    for r in raises:
        guards = []
        cur = r
        par = getattr(cur, '_parent', None)
        while par is not None and par is not m:
            if isinstance(par, ast.If):
                guards.append((par.test, cur in par.body or any(cur is x or cur in ast.walk(x) for x in par.body)))
            elif isinstance(par, (ast.Try, ast.ExceptHandler, ast.For, ast.While, ast.With)):
                raise AnalysisError('{}.eval raises inside a {}: when it refuses a value is not understood'.format(cls, type(par).__name__))
            cur, par = par, getattr(par, '_parent', None)
        if inner is None or not guards:
            raise AnalysisError('{}.eval contains a raise whose condition is not understood'.format(cls))
        witness = None
        for v in WORD_SAMPLES:
            try:
                fires = True
                for test, in_body in guards:
                    t2 = copy.deepcopy(test)

                    class Sub(ast.NodeTransformer):
                        def visit_Name(self, n):
                            return ast.copy_location(ast.Constant(value=v), n) if n.id == inner else n
                    t2 = _FoldWord().visit(Sub().visit(t2))
                    val = bool(fold(t2))
                    if val != in_body:
                        fires = False
                        break
            except NotConstant:
                raise AnalysisError('{}.eval: the condition under which it refuses a value ({}) cannot be evaluated on constants'.format(cls, unparse(guards[0][0])[:60]))
            if fires:
                witness = v
                break
        rep.check(witness is None, rule, '{}.eval accepts every boundary value of the 32-bit range'.format(cls),
                  lambda r=r, witness=witness: Finding(rule, cls + '.eval', r, '{}.eval refuses the 32-bit value {:#x}: {} of every 32-bit value is defined and fits its field'.format(
                      cls, witness & 0xffffffff, '%' + cls.lower()), line=r.lineno))


def run(repo, tier):
    facts = Facts(repo.asm)
    rep = Report('C07', LEVEL,
                 'sign_extend / relocate_lo / relocate_hi are abstractly interpreted over an unbounded two\'s-complement input '
                 'v = 2^48*SH + sum 2^j*b_j (linear forms over bit atoms, residue wrappers, single-bit case split re-joined '
                 'linearly).  The results are closed forms: lo as an exact linear form, hi as a signed residue; the identities '
                 'lo == v (mod 2^12), hi == (v>>12)+v[11] (mod 2^20), (hi<<12)+lo == v (mod 2^32) are then coefficient '
                 'identities, valid for every integer v.  Ranges are compared with the accepted sets derived for lui/auipc and '
                 'every I/S-type consumer (C01 summaries); Hi/Lo.eval and parse_immediate are followed by def-use.')
    rep.trusted_base = ['CPython ast', 'bbverif.relocdom linear-form arithmetic', 'bbverif.bitdom (accepted sets of the consumers)']
    from ..encprops import attempt as at

    def arithmetic():
        v = R.Lin.v()
        interp = R.Interp(facts)
        regions = {}
        for fname, spec, rule in (('relocate_lo', R.lo_spec, 'R7.lo-congruent'), ('relocate_hi', R.hi_spec, 'R7.hi-congruent')):
            try:
                regions[fname] = interp.call_regions(fname, [v])
            except R.Unsupported as e:
                # outside the linear-form fragment: nothing is proved; a counterexample on the sample inputs still is a finding
                regions[fname] = []
                fdef = facts.funcs[fname]
                params = [a_.arg for a_ in fdef.args.args]
                try:
                    cex = R.counterexample(facts, fdef.body, lambda x: {params[0]: x}, spec) if len(params) == 1 else None
                except R.NotConcrete:
                    cex = None
                if cex is not None:
                    rep.fail(Finding(rule, fname, 'counterexample', '{}({}) == {}: {}'.format(fname, hex(cex[0]) if cex[0] >= 0 else cex[0], cex[1], cex[2]),
                                     line=fdef.lineno))
                else:
                    rep.undecided('construct outside the %hi/%lo arithmetic fragment: {}'.format(e))
        lo_regions, hi_regions = regions['relocate_lo'], regions['relocate_hi']
        rep.count('functions interpreted', 3)
        rep.analysed['input regions (lo x hi)'] = len(lo_regions) * len(hi_regions)
        lo_line = facts.funcs['relocate_lo'].lineno
        hi_line = facts.funcs['relocate_hi'].lineno
        want_hi0 = R.shift_right(v, 12) + R.Lin({11: 1}, 0)

        def restrict(lin, subst):
            for atom, val in subst.items():
                lin = lin.subst(atom, val)
            return lin
        v0 = v
        for lreg, lsub, lo in lo_regions:
            v = restrict(v0, lsub)
            L, ml, llo, lhi = R.congruence_and_range(lo)
            where = '' if lreg == 'all v' else ' for ' + lreg
            rep.sample({'relocate_lo': {'region': lreg, 'form': repr(L), 'modulus_bits': ml, 'range': [llo, lhi]}})
            # (a) lo == v mod 2^12, range
            rep.check((ml is None or ml >= 12) and (L - v).congruent_zero(12), 'R7.lo-congruent', 'relocate_lo(v) == v (mod 2^12)' + where,
                      lambda L=L, where=where: Finding('R7.lo-congruent', 'relocate_lo', 'congruence' + where, '%lo(v) is not congruent to v modulo 2^12{}: %lo(v) = {}'.format(where, L), line=lo_line))
            rep.check(llo is not None and llo >= -2048 and lhi is not None and lhi <= 2047, 'R7.lo-range', 'relocate_lo(v) in [-2048, 2047]' + where,
                      lambda llo=llo, lhi=lhi, where=where: Finding('R7.lo-range', 'relocate_lo', 'range' + where, '%lo(v) ranges over [{}, {}]{}, not a signed 12-bit value'.format(llo, lhi, where), line=lo_line))
        for hreg, hsub, hi in hi_regions:
            v = restrict(v0, hsub)
            want_hi = restrict(want_hi0, hsub)
            H, mh, hlo, hhi = R.congruence_and_range(hi)
            where = '' if hreg == 'all v' else ' for ' + hreg
            rep.sample({'relocate_hi': {'region': hreg, 'form': repr(H), 'modulus_bits': mh, 'range': [hlo, hhi]}})
            # (b) hi == (v >> 12) + v[11] mod 2^20, range
            rep.check((mh is None or mh >= 20) and (H - want_hi).congruent_zero(20), 'R7.hi-congruent', 'relocate_hi(v) == (v >> 12) + v[11] (mod 2^20)' + where,
                      lambda H=H, mh=mh, where=where: Finding('R7.hi-congruent', 'relocate_hi', 'congruence' + where,
                                                              '%hi(v) == {} (mod 2^{}){}, expected (v >> 12) + bit11(v) (mod 2^20)'.format(H, mh, where), line=hi_line))
            rep.check(hlo is not None and hlo >= -(1 << 19) and hhi is not None and hhi <= (1 << 19) - 1, 'R7.hi-range', 'relocate_hi(v) in [-2^19, 2^19-1]' + where,
                      lambda hlo=hlo, hhi=hhi, where=where: Finding('R7.hi-range', 'relocate_hi', 'range' + where, '%hi(v) ranges over [{}, {}]{}, not a signed 20-bit value'.format(hlo, hhi, where), line=hi_line))
            # (c) (hi << 12) + lo == v mod 2^32  (lo taken from the unsplit / every lo region: lo does not depend on hi's regions)
            for lreg, lsub, lo in lo_regions:
                if set(lsub) & set(hsub) and any(lsub[k] != hsub[k] for k in set(lsub) & set(hsub)):
                    continue      # disjoint regions
                lo_lin = sres_to_lin(lo)
                if lo_lin is None:
                    # nothing is known to be wrong: the closed form of %lo(v) is a residue whose sign bit is not a single input bit, so
                    # the identity cannot be stated as a coefficient identity (no verdict; a violation found elsewhere is still reported)
                    rep.undecided('relocate_lo: %lo(v) is only known as a residue ({}); the identity (hi << 12) + lo == v is not decided'.format(lo))
                    continue
                both = dict(lsub)
                both.update(hsub)
                total = restrict(H.scale(1 << 12) + lo_lin - v0, both)
                good = (mh is None or mh + 12 >= 32) and total.congruent_zero(32)
                rep.check(good, 'R7.rebuild', '(relocate_hi(v) << 12) + relocate_lo(v) == v (mod 2^32)' + (where or ' for every integer v'),
                          lambda total=total, mh=mh, where=where: Finding('R7.rebuild', 'relocate_hi', 'identity' + where,
                                                                          '(%hi(v) << 12) + %lo(v) - v == {}{} which is not 0 modulo 2^32 (hi known modulo 2^{})'.format(total, where, mh),
                                                                          line=hi_line))

    at(rep, arithmetic)

    def consumers():
        # (d) ranges fit the consumers
        sums = all_summaries(facts)
        n = 0
        from .. import oracle
        from ..encsum import summary_of
        for m in facts.instructions():
            if m not in oracle.RV32:
                continue
            s = summary_of(rep, sums, m)
            if s is None:
                continue
            # the consumers are named by the ISA format of the mnemonic (oracle), not by the name of the function that encodes it:
            # U-format upper immediates take %hi, the 12-bit immediates of the I / S formats take %lo
            spec_kind = None
            fmt = oracle.RV32_FORMAT.get(m)
            spec = oracle.RV32.get(m)
            if spec is None or fmt not in ('U', 'I', 'S'):
                continue
            if len(spec['operands']) != len(s.params):
                continue            # pre-bound / special-syntax forms (ecall, fence): no immediate operand to write %lo into
            imm_params = [p_ for p_, op in zip(s.params, spec['operands']) if op['kind'] == 'imm' and op['role'] == 'imm']
            if len(imm_params) != 1:
                continue
            spec_kind = ('hi', -(1 << 19), (1 << 19) - 1) if fmt == 'U' else ('lo', -2048, 2047)
            info = derived_operand(s, imm_params[0])
            if info is None:
                raise AnalysisError('{}: the immediate operand {} is not interpreted by the encoder summary'.format(m, imm_params[0]))
            n += 1
            cells = canon(info['cells'])
            which, a, b = spec_kind
            mult = max(c[3] for c in cells) if cells else 1
            covered = any(c[0] <= a and c[1] >= b - (c[3] - 1) and c[2] == 0 for c in cells)
            if m == 'jalr' and mult == 2:
                # documented restriction: even offsets only; %lo of an odd value is refused, never wrapped
                rep.note('jalr refuses odd %lo values (documented 12-bit MO2 operand)')
            rep.check(covered, 'R7.fits', '{}: %{} range within accepted set {}'.format(m, which, show_cells(cells)),
                      lambda m=m, which=which, cells=cells: Finding('R7.fits', s.encoder + ':' + m, 'range',
                                                                    '{} does not accept the whole range of %{}: accepted {}'.format(m, which, show_cells(cells)),
                                                                    line=getattr(facts.funcs.get(s.encoder), 'lineno', None)))
        rep.count('consumer encoders compared', n)

    at(rep, consumers)
    # (e) expression nodes and parser
    at(rep, eval_method_rule, rep, facts, 'Hi', 'relocate_hi', 'R7.eval', others=('relocate_lo',))
    at(rep, eval_method_rule, rep, facts, 'Lo', 'relocate_lo', 'R7.eval', others=('relocate_hi',))
    def parser():
        arms, els = chain_outcomes(facts, 'parse_immediate', 'imm')
        want = {'%hi': 'Hi', '%lo': 'Lo'}
        seen = {}
        pfn = facts.funcs['parse_immediate']
        from ..wiring import admits
        every = [o for key, test, outs in arms for o in outs] + list(els or [])
        for mod in want:
            for o in every:
                # the outcomes a line whose first operand token is this modifier can take (dispatch-independent: elif chain, merged
                # arms with the class picked by a conditional expression, table lookup)
                if o.kind != 'return' or o.cls not in ('Hi', 'Lo', 'Arithmetic', 'Position', 'Offset') or not admits(facts, o.path, mod):
                    continue
                if o.cls in ('Arithmetic', 'Position', 'Offset') and any(f[0] == 'eq' and f[2] and f[1] != mod for f in o.path.head_facts):
                    continue
                positively = any(f[0] == 'eq' and f[2] and f[1] == mod for f in o.path.head_facts) or \
                    any(f[0] == 'in' and f[2] for f in o.path.head_facts)
                if not positively and o.cls not in ('Hi', 'Lo'):
                    continue           # the catch-all arm: reached by a modifier only if no arm claims it (reported below)
                if not positively:
                    # a relocation node built on a path that never positively tested the modifier: the test that guards it was not
                    # read (str.lower(imm[0]), a helper predicate ...); judging it for every modifier would be guessing
                    raise AnalysisError('parse_immediate: the condition under which {} is built is not understood ({})'.format(
                        o.cls, o.cond_text()[-80:]))
                pf = o.path.paren_form()
                if pf is None:
                    raise AnalysisError('parse_immediate: a path building {} rests on a condition about the operand tokens that is not '
                                        'modelled ({}): bare or parenthesised form is not decided'.format(o.cls, o.path.unknown_conds[0][:60]))
                paren = pf
                inner = ('imm', ('rest', 2, 1)) if paren else ('imm', ('rest', 1, 0))
                # the node's operand: positional or by keyword
                cparams = [p_ for p_, _ in facts.init_params(o.cls)] if o.cls in facts.classes else []
                given = dict(zip(cparams, o.args))
                given.update({k_: v_ for k_, v_ in o.kwargs.items() if k_ in cparams and k_ not in given})
                operand = given.get(cparams[0]) if cparams else None
                if len(o.args) + len(o.kwargs) != 1 or operand is None:
                    raise AnalysisError('parse_immediate: how {} is constructed is not understood: {}({}, {})'.format(o.cls, o.cls, o.args, o.kwargs))
                if operand != inner and not (operand[0] == 'imm' and operand[1][0] in ('rest', 'list', 'tok')):
                    raise AnalysisError('parse_immediate: the operand handed to {} is not followed: {}'.format(o.cls, operand))
                ok = o.cls == want[mod] and operand == inner
                seen[(mod, paren)] = seen.get((mod, paren), True) and ok
                rep.check(ok, 'R7.parse', '{} {} form -> {}(parse_immediate(rest))'.format(mod, 'parenthesised' if paren else 'bare', want[mod]),
                          lambda o=o, mod=mod: Finding('R7.parse', 'parse_immediate', o.node,
                                                       '{} is parsed into {}({}) instead of {} of the nested immediate'.format(mod, o.cls, o.args, want[mod]),
                                                       line=o.node.lineno))
        for k in [('%hi', True), ('%hi', False), ('%lo', True), ('%lo', False)]:
            if k not in seen:
                rep.fail(Finding('R7.parse', 'parse_immediate', '{} {}'.format(*k), 'no parse path for {} ({} form)'.format(k[0], 'paren' if k[1] else 'bare'), line=pfn.lineno))
        rep.count('parse_immediate paths', len(seen))

    at(rep, parser)
    # (f) pairing of the halves built by the pseudo-instruction pass
    at(rep, IS.check_lo_pairing, rep, facts, 'R7.lo-width', 'R7.guard-fits', 'R7.hi-lo-pair')
    for cls_ in ('Hi', 'Lo'):
        at(rep, total_eval_rule, rep, facts, cls_, 'R7.total')
    # the auipc + jalr pair rebuilds its target only if both halves are %hi / %lo of the *same* value: every site that evaluates
    # the jalr half does so relative to the auipc, and nothing is added to the result afterwards (%lo(v + c) != %lo(v) + c)
    at(rep, IS.check_auipc, rep, facts, 'R7.auipc-adjust', 'R7.auipc-sibling')
    # ... and both halves are evaluated where they stand: the stored operand is the value evaluated at the item's own final
    # offset against the final tables (a memo keyed by the expression text hands the second far call the halves of the first)
    from .. import labelrules as LB
    at(rep, LB.check_L4, rep, facts, 'R7.final')
    rep.floor('%lo constructions examined', 5)
    rep.floor('consumer encoders compared', 17)
    rep.floor('parse_immediate paths', 4)
    rep.not_decided = ['consumer pairs written by the user (lui + lw) are covered through (a)-(d) only']
    return rep
