"""[R1.pack] / [R2.pack]: how resolve_instructions turns an Instruction item into bytes, stated over *paths*.

resolve_instructions is walked with every module-level helper and local closure inlined (pathwalk inline='all'; a tuple of classes
in isinstance is split into one fact per class), so neither the name of a local, nor the nesting of the code in closures /
higher-order skeletons / context managers, nor the spelling of the class test matters.  For every path and every concrete
Instruction class K whose instances can take that path (decided from the path's isinstance facts) the rule requires

  * a struct.pack(fmt, code) whose `code` is the result of calling  INSTRUCTIONS[item.name]
  * with positional arguments exactly the elements of item.args() in order - all of them, or, iff args() of K ends in
    [aq, rl] (the A-type classes, whose encoders take aq / rl keyword-only), all but the last two with those two passed as
    aq=, rl= in that order
  * and fmt == '<H' iff K derives from CompressedInstruction, '<I' otherwise (little-endian, unsigned, 2 / 4 bytes).

Anything the walk does not positively understand is an AnalysisError (no verdict), never a finding.
"""
from .core import AnalysisError, Finding
from .pathwalk import Walker, PathState, show, is_const, C


class ClassWalker(Walker):
    """pathwalk.Walker with `isinstance(x, (A, B))` read as `isinstance(x, A) or isinstance(x, B)` (pathwalk forks `or`
    tests with short-circuit facts, so each path knows the class facts it was taken under)."""

    def sym(self, node, st):
        return self.flatten(self._sym(node, st), st)

    def flatten(self, v, st):
        """A call through functools.partial objects / a lambda is the call it stands for:
        partial(f, *a, **k)(*b, **c) == f(*a, *b, **k, **c) (nested partials included); a lambda is expanded with its parameters
        (a *args parameter included) bound to the argument values."""
        if not (isinstance(v, tuple) and v and v[0] == 'callv'):
            return v
        f = strip(v[1])
        pa = partial_parts(f)
        if pa is not None:
            g, a, k = pa
            later = dict(v[3])
            kws = tuple((n, x) for n, x in k if n is None or n not in later) + tuple(v[3])      # a later keyword overrides
            return self.flatten(('callv', g, tuple(a) + tuple(v[2]), kws), st)
        if f[0] == 'lambda' and f[1] in self._lambdas:
            lnode, lenv = self._lambdas[f[1]]
            env = self.bind_lambda(lnode, v[2], v[3])
            if env is not None:
                s2 = st.clone()
                s2.env = dict(lenv)
                s2.env.update(env)
                return self.sym(lnode.body, s2)
        return v

    def bind_lambda(self, lnode, args, kwargs):
        a = lnode.args
        params = [x.arg for x in a.posonlyargs + a.args]
        env = {}
        rest = list(args)
        for p_ in params:
            if not rest or rest[0][0] == 'star':
                break
            env[p_] = rest.pop(0)
        if rest:
            if not a.vararg:
                return None
            env[a.vararg.arg] = ('tuple', tuple(rest))
        elif a.vararg:
            env[a.vararg.arg] = ('tuple', ())
        names = set(params) | {x.arg for x in a.kwonlyargs}
        extra = []
        for n, x in kwargs:
            if n is not None and n in names and n not in env:
                env[n] = x
            elif a.kwarg and n is not None:
                extra.append((n, x))
            else:
                return None
        if a.kwarg:
            env[a.kwarg.arg] = ('kwdict', tuple(extra))
        defaults = dict(zip(params[len(params) - len(a.defaults):], a.defaults))
        for x, d in zip(a.kwonlyargs, a.kw_defaults):
            if d is not None:
                defaults[x.arg] = d
        for p_ in params + [x.arg for x in a.kwonlyargs]:
            if p_ not in env:
                if p_ not in defaults:
                    return None
                env[p_] = self.sym(defaults[p_], PathState())
        return env

    def _sym(self, node, st):
        import ast
        if isinstance(node, ast.Call) and isinstance(node.func, (ast.Subscript, ast.Call, ast.Lambda)):
            # TABLE[key](...) / partial(f, ...)(...) / (lambda ...)(...) called directly: same value as `f = ...; f(...)`
            args = tuple(('star', self.sym(a.value, st)) if isinstance(a, ast.Starred) else self.sym(a, st) for a in node.args)
            kwl = []
            for kw in node.keywords:
                v_ = self.sym(kw.value, st)
                if kw.arg is None and v_[0] == 'kwdict':
                    kwl.extend(v_[1])
                else:
                    kwl.append((kw.arg, v_))
            return ('callv', self.sym(node.func, st), args, tuple(kwl))
        v = super().sym(node, st)
        if (isinstance(v, tuple) and v and v[0] == 'call' and v[1] == 'isinstance' and len(v[2]) == 2 and not v[3]
                and v[2][1][0] in ('tuple', 'list')):
            obj, classes = v[2]
            parts = tuple(('call', 'isinstance', (obj, c), ()) for c in classes[1])
            if not parts:
                return C(False)
            return parts[0] if len(parts) == 1 else ('bool', 'or', parts)
        return v


def strip(v):
    while isinstance(v, tuple) and v and v[0] == 'res':
        v = v[3]
    return v


def partial_parts(f):
    """(function, positional args, keyword pairs) of a functools.partial(...) value, or None."""
    f = strip(f)
    if f[0] == 'call' and f[1] in ('partial', 'functools.partial') and f[2] and f[2][0][0] != 'star':
        return f[2][0], f[2][1:], f[3]
    if f[0] == 'mcall' and f[1] == ('name', 'functools') and f[2] == 'partial' and f[3] and f[3][0][0] != 'star':
        return f[3][0], f[3][1:], f[4]
    return None


def subterms(v):
    """Every nested tuple term of a symbolic value (pre-order)."""
    todo = [v]
    while todo:
        x = todo.pop()
        if isinstance(x, tuple) and x:
            yield x
            todo.extend(reversed([y for y in x if isinstance(y, tuple)]))


def function_paths(facts, fn, **kw):
    w = ClassWalker(facts, inline='all', **kw)
    st = PathState()
    a = fn.args
    for p in a.posonlyargs + a.args + a.kwonlyargs:
        st.env[p.arg] = ('name', p.arg)
    if a.vararg:
        st.env[a.vararg.arg] = ('name', a.vararg.arg)
    if a.kwarg:
        st.env[a.kwarg.arg] = ('name', a.kwarg.arg)
    return w, w.run(fn.body, st)


# -- class facts ---------------------------------------------------------------------------------------------------------------------
def isinstance_parts(test):
    """(object, class name) if the test is isinstance(obj, Name) else None."""
    if (isinstance(test, tuple) and test and test[0] == 'call' and test[1] == 'isinstance' and len(test[2]) == 2
            and test[2][1][0] == 'name'):
        return test[2][0], test[2][1][1]
    return None


def eval_test(facts, test, obj, cls):
    """Truth of a symbolic test when the exact class of `obj` is `cls`: True / False / None (not about the class)."""
    if is_const(test):
        return bool(test[1])
    ip = isinstance_parts(test)
    if ip is not None:
        if ip[0] == obj and ip[1] in facts.classes:
            return facts.is_subclass(cls, ip[1])
        return None
    if test[0] == 'un' and test[1] == 'not':
        r = eval_test(facts, test[2], obj, cls)
        return None if r is None else not r
    if test[0] == 'bool':
        vals = [eval_test(facts, t, obj, cls) for t in test[2]]
        if test[1] == 'and':
            if any(v is False for v in vals):
                return False
            return True if all(v is True for v in vals) else None
        if any(v is True for v in vals):
            return True
        return False if all(v is False for v in vals) else None
    if test[0] == 'cmp' and test[1] in ('is', 'is not', '==', '!=') and test[2][0] == 'call' and test[2][1] == 'type' \
            and test[2][2] == (obj,) and test[3][0] == 'name' and test[3][1] in facts.classes:
        r = cls == test[3][1]
        return r if test[1] in ('is', '==') else not r
    if test[0] == 'call' and test[1] == 'hasattr' and len(test[2]) == 2 and not test[3] and test[2][0] == obj and is_const(test[2][1]) \
            and isinstance(test[2][1][1], str):
        # hasattr(item, 'aq'): decided by the class model (attributes stored by the constructor chain, methods, class-level names)
        attr = test[2][1][1]
        import ast
        for c in facts.mro(cls):
            for st in facts.classes[c].node.body:
                if isinstance(st, (ast.FunctionDef, ast.ClassDef)) and st.name == attr:
                    return True
                if isinstance(st, ast.Assign) and any(isinstance(t, ast.Name) and t.id == attr for t in st.targets):
                    return True
        if attr in [a for a, _ in facts.full_attr_order(cls)]:
            return True
        if facts.init_understood(cls) and all(b in facts.classes or b in ('object', 'abc.ABC', 'ABC') for c in facts.mro(cls) for b in facts.classes[c].bases):
            return False
        return None
    if test[0] == 'cmp' and test[1] in ('==', '!=', '<', '<=', '>', '>=') and any(t == obj for t in subterms(test)):
        # a comparison of class-determined constants: item.size() == 2, item.WORD_FORMAT == '<H'
        try:
            a, b = value_under_class(facts, test[2], obj, cls), value_under_class(facts, test[3], obj, cls)
            return {'==': a == b, '!=': a != b, '<': a < b, '<=': a <= b, '>': a > b, '>=': a >= b}[test[1]]
        except (NotUnderstood, TypeError):
            return None
    return None


def compatible(facts, path, obj, cls):
    """Can an item whose exact class is `cls` take this path?"""
    for test, pol, _ in path.conds:
        r = eval_test(facts, test, obj, cls)
        if r is not None and r != pol:
            return False
    return True


def undecided_item_conditions(facts, path, obj, cls):
    """Conditions of the path that look at the item and are not decided by its class (an attribute value, a helper predicate): the
    path may be one that items of this class never take, so a mismatch found on it is not a finding."""
    return [test for test, pol, _ in path.conds
            if eval_test(facts, test, obj, cls) is None and any(t == obj for t in subterms(test))]


def concrete_instruction_classes(facts):
    """Instruction subclasses an item can be an exact instance of: not the base of another class, no abstract method of its own."""
    import ast
    out = []
    allc = facts.subclasses('Instruction')
    for c in allc:
        if any(c in facts.classes[d].bases for d in facts.classes):
            continue
        ci = facts.classes[c]
        if any((isinstance(d, ast.Name) and d.id == 'abstractmethod') or (isinstance(d, ast.Attribute) and d.attr == 'abstractmethod')
               for m in ci.methods.values() for d in m.decorator_list):
            continue
        out.append(c)
    return out


# -- values under an exact class -----------------------------------------------------------------------------------------------------
class NotUnderstood(Exception):
    pass


def value_under_class(facts, v, obj, cls):
    """Constant value of a symbolic expression when the exact class of `obj` is `cls` (conditional expressions on the class,
    module constants, string concatenation, constant tables); raises NotUnderstood."""
    v = strip(v)
    if is_const(v):
        return v[1]
    k = v[0]
    if k == 'name':
        if v[1] in facts.consts:
            return facts.consts[v[1]]
        raise NotUnderstood('name {} is not a module constant'.format(v[1]))
    if k == 'struct_of':
        # format string of a struct.Struct(fmt) object (local, or a module-level constant)
        r = strip(v[1])
        if r[0] == 'ifexp':
            t_ = eval_test(facts, r[1], obj, cls)
            if t_ is None:
                raise NotUnderstood('condition {} does not depend on the item class only'.format(show(r[1])))
            return value_under_class(facts, ('struct_of', r[2] if t_ else r[3]), obj, cls)
        if r[0] == 'call' and r[1] in ('struct.Struct', 'Struct') and len(r[2]) == 1 and not r[3]:
            return value_under_class(facts, r[2][0], obj, cls)
        if r[0] == 'name' and r[1] in facts.assign_nodes:
            import ast
            from .astutil import fold, NotConstant, dotted
            n_ = facts.assign_nodes[r[1]].value
            if isinstance(n_, ast.Call) and dotted(n_.func) in ('struct.Struct', 'Struct') and len(n_.args) == 1 and not n_.keywords:
                try:
                    return fold(n_.args[0], facts.consts)
                except NotConstant:
                    pass
        raise NotUnderstood('{} is not a struct.Struct with a constant format'.format(show(r)))
    if k == 'ifexp':
        r = eval_test(facts, v[1], obj, cls)
        if r is None:
            raise NotUnderstood('condition {} does not depend on the item class only'.format(show(v[1])))
        return value_under_class(facts, v[2] if r else v[3], obj, cls)
    if k == 'bin' and v[1] == '+':
        a, b = value_under_class(facts, v[2], obj, cls), value_under_class(facts, v[3], obj, cls)
        if isinstance(a, str) and isinstance(b, str):
            return a + b
        raise NotUnderstood('non-string operands of +')
    if k in ('call', 'cmp', 'bool', 'un'):
        r = eval_test(facts, v, obj, cls)
        if r is not None:
            return r
        if k == 'call' and v[1] in ('int', 'bool') and len(v[2]) == 1 and not v[3]:
            inner = value_under_class(facts, v[2][0], obj, cls)
            return int(inner) if v[1] == 'int' else bool(inner)
    if k == 'attr' and v[1] == obj:
        # item.WORD_FORMAT: a class-level constant, looked up along the MRO of the exact class
        import ast
        from .astutil import fold, NotConstant
        for c in facts.mro(cls):
            for st in facts.classes[c].node.body:
                if isinstance(st, ast.Assign) and any(isinstance(t, ast.Name) and t.id == v[2] for t in st.targets):
                    try:
                        return fold(st.value, facts.consts)
                    except NotConstant:
                        raise NotUnderstood('class attribute {}.{} is not a constant'.format(c, v[2]))
        raise NotUnderstood('{} is not a class-level constant of {}'.format(v[2], cls))
    if k == 'mcall' and v[1] == obj and v[2] == 'size' and not v[3] and not v[4]:
        # item.size(): a literal `return <int>` of the class that defines it
        import ast
        _, m = facts.method(cls, 'size')
        if m is not None:
            rets = [n for n in ast.walk(m) if isinstance(n, ast.Return)]
            if len(rets) == 1 and isinstance(rets[0].value, ast.Constant) and isinstance(rets[0].value.value, int):
                return rets[0].value.value
        raise NotUnderstood('size() of {} is not a literal'.format(cls))
    if k == 'sub':
        base = strip(v[1])
        key = value_under_class(facts, v[2], obj, cls)
        if base[0] == 'dict':
            for kk, vv in base[1]:
                if is_const(kk) and kk[1] == key and type(kk[1]) == type(key):
                    return value_under_class(facts, vv, obj, cls)
            raise NotUnderstood('key {!r} not in the literal table'.format(key))
        table = value_under_class(facts, base, obj, cls)
        if isinstance(table, (dict, list, tuple)):
            try:
                return table[key]
            except (KeyError, IndexError, TypeError):
                raise NotUnderstood('key {!r} not in the table'.format(key))
    raise NotUnderstood('expression {} is outside the fragment'.format(show(v)))


# word formats: struct format -> (bytes, little-endian?, unsigned?) ; None = not a single-integer format
_CODES = {'B': (1, True), 'b': (1, False), 'H': (2, True), 'h': (2, False), 'I': (4, True), 'i': (4, False), 'L': (4, True),
          'l': (4, False), 'Q': (8, True), 'q': (8, False)}


def describe_format(fmt):
    """(size, byte order, unsigned) of a one-integer struct format, or None."""
    if not isinstance(fmt, str) or not fmt:
        return None
    order = 'native'
    body = fmt
    if fmt[0] in '<>!=@':
        order = {'<': 'little', '>': 'big', '!': 'big', '=': 'native', '@': 'native'}[fmt[0]]
        body = fmt[1:]
    if body.startswith('1'):
        body = body[1:]
    if body not in _CODES:
        return None
    size, unsigned = _CODES[body]
    return size, order, unsigned


def pack_parts(facts, t):
    """(format term, value term) when the term turns an integer into bytes: struct.pack(fmt, v), struct.Struct(fmt).pack(v) (the
    Struct possibly a module-level constant), v.to_bytes(n, order[, signed=]) -> format ('to_bytes', n, order, signed);
    'unknown' for such a call with an unexpected shape; None for any other term."""
    if t[0] == 'call' and t[1] == 'struct.pack':
        if len(t[2]) != 2 or t[3] or any(a[0] == 'star' for a in t[2]):
            return 'unknown'
        return t[2][0], t[2][1]
    if t[0] == 'mcall' and t[2] == 'pack':
        # <Struct object>.pack(v): the format is the Struct's, resolved per item class (value_under_class 'struct_of')
        if len(t[3]) != 1 or t[4] or t[3][0][0] == 'star':
            return 'unknown'
        return ('struct_of', t[1]), t[3][0]
    if t[0] == 'mcall' and t[2] == 'to_bytes':
        kws = dict(t[4])
        pos = list(t[3])
        if any(a[0] == 'star' for a in pos) or None in kws or len(pos) > 2 or set(kws) - {'length', 'byteorder', 'signed'}:
            return 'unknown'
        size = pos[0] if pos else kws.get('length')
        order = pos[1] if len(pos) > 1 else kws.get('byteorder')
        if size is None or order is None:
            return 'unknown'
        return ('to_bytes', size, order, kws.get('signed', C(False))), t[1]
    return None


# -- selecting elements of item.args() -----------------------------------------------------------------------------------------------
class Arity(Exception):
    pass


def _int_or_none(v):
    v = strip(v)
    if is_const(v) and (v[1] is None or (isinstance(v[1], int) and not isinstance(v[1], bool))):
        return v[1]
    raise NotUnderstood('slice bound {} is not a constant'.format(show(v)))


def _norm(i, length):
    return i if i >= 0 else length + i


def select(v, args_term, length):
    """Indices into item.args() (a list of `length` elements, or None when the class model has no literal args()) that the
    symbolic value denotes: ('seq', [i...]) for a list-valued term, ('one', i) for a single element."""
    v = strip(v)
    if v == args_term:
        if length is None:
            return ('all',)
        return ('seq', list(range(length)))
    if length is None:
        raise NotUnderstood('args() of the class is not a literal list, and {} is not the whole list'.format(show(v)))
    if v[0] == 'unpack' and strip(v[1]) == args_term:
        spec, n = v[2], v[3]
        starred = ':' in spec or n < 0          # pathwalk: n < 0 marks the plain targets of a starred unpacking
        if not starred and n != length:
            raise Arity('args() has {} elements but is unpacked into {} names'.format(length, n))
        if starred and abs(n) - 1 > length:
            raise Arity('args() has {} elements but is unpacked into at least {} names'.format(length, abs(n) - 1))
        if ':' in spec:
            lo, hi = spec.split(':')
            lo = int(lo)
            hi = length + int(hi) if hi else length
            return ('seq', list(range(lo, hi)))
        return ('one', _norm(int(spec), length))
    if v[0] == 'slice' and strip(v[1]) == args_term:
        lo, hi, step = _int_or_none(v[2]), _int_or_none(v[3]), _int_or_none(v[4])
        if step not in (None, 1):
            raise NotUnderstood('stepped slice of args()')
        return ('seq', list(range(length))[slice(lo, hi)])
    if v[0] == 'sub' and strip(v[1]) == args_term:
        i = _int_or_none(v[2])
        if i is None or not -length <= i < length:
            raise Arity('args()[{}] does not exist: args() has {} elements'.format(i, length))
        return ('one', _norm(i, length))
    if v[0] in ('list', 'tuple'):
        out = []
        for e in v[1]:
            if e[0] == 'star':
                s = select(e[1], args_term, length)
                if s[0] != 'seq':
                    raise NotUnderstood('starred single element')
                out.extend(s[1])
            else:
                s = select(e, args_term, length)
                if s[0] != 'one':
                    raise NotUnderstood('list element is itself a list')
                out.append(s[1])
        return ('seq', out)
    if v[0] == 'call' and v[1] in ('list', 'tuple') and len(v[2]) == 1 and not v[3]:
        return select(v[2][0], args_term, length)
    if v[0] == 'bin' and v[1] == '+':
        a, b = select(v[2], args_term, length), select(v[3], args_term, length)
        if a[0] == 'seq' and b[0] == 'seq':
            return ('seq', a[1] + b[1])
    raise NotUnderstood('{} is not a selection of elements of item.args()'.format(show(v)))


def call_arguments(call, args_term, length):
    """(positional index list | 'all', {keyword: index}) of an encoder call."""
    pos = []
    whole = False
    for a in call[2]:
        if a[0] == 'star':
            s = select(a[1], args_term, length)
            if s[0] == 'all':
                whole = True
                continue
            if s[0] != 'seq':
                raise NotUnderstood('starred single element')
            pos.extend(s[1])
        else:
            s = select(a, args_term, length)
            if s[0] != 'one':
                raise NotUnderstood('a list of operands is passed as one positional argument')
            pos.append(s[1])
    if whole and (pos or len(call[2]) != 1):
        raise NotUnderstood('whole args() mixed with other positional arguments')
    kws = {}
    pairs = []
    for name, val in call[3]:
        if name is None:
            d = strip(val)
            if d[0] == 'call' and d[1] == 'dict' and not d[2]:
                pairs.extend(d[3])
            elif d[0] == 'dict' and all(is_const(k) and isinstance(k[1], str) for k, _ in d[1]):
                pairs.extend((k[1], v) for k, v in d[1])
            else:
                raise NotUnderstood('**kwargs in the encoder call')
        else:
            pairs.append((name, val))
    for name, val in pairs:
        s = select(val, args_term, length)
        if s[0] != 'one':
            raise NotUnderstood('keyword {} receives a list'.format(name))
        kws[name] = s[1]
    return ('all' if whole else pos), kws


# -- the rule ------------------------------------------------------------------------------------------------------------------------
def node_of(path, term):
    """AST node of the first event of the path that mentions the term (for file:line and the finding key)."""
    for ev in path.events:
        if any(isinstance(x, tuple) and any(t == term for t in subterms(x)) for x in ev[1:-1]):
            return ev[-1]
    return None


def item_of_path(facts, path, packs):
    """The symbolic value that plays `item` on this path: subject of the isinstance tests against the Instruction family and
    of INSTRUCTIONS[<item>.name] in the packed value.  None when the path never looks at an item."""
    family = set(facts.subclasses('Instruction'))
    subjects = []
    for test, pol, _ in path.conds:
        for t in subterms(test):
            ip = isinstance_parts(t)
            if ip is not None and ip[1] in family and ip[0] not in subjects:
                subjects.append(ip[0])
    for p in packs:
        for t in subterms(p):
            if t[0] == 'sub' and t[1] == ('name', 'INSTRUCTIONS') and t[2][0] == 'attr' and t[2][2] == 'name' and t[2][1] not in subjects:
                subjects.append(t[2][1])
    if len(subjects) > 1:
        raise AnalysisError('resolve_instructions: several values are tested against the Instruction classes on one path ({}): '
                            'which one is the item being encoded is not understood'.format(', '.join(show(s) for s in subjects)))
    return subjects[0] if subjects else None


def check_pack_rule(report, facts, rule, fn_name='resolve_instructions'):
    fn = facts.funcs.get(fn_name)
    if fn is None:
        raise AnalysisError('anchor vanished: ' + fn_name)
    if 'Instruction' not in facts.classes or 'CompressedInstruction' not in facts.classes:
        raise AnalysisError('anchor vanished: class Instruction / CompressedInstruction')
    walker, paths = function_paths(facts, fn)
    classes = []
    for c in concrete_instruction_classes(facts):
        if facts.args_attrs(c) is None:
            # PseudoInstruction: no literal operand list, never an operand of an encoder (expanded before this pass: C05 / C09 R9.5)
            report.note('{}: args() is not a literal operand list; not an encodable class, outside the pack rule'.format(c))
            continue
        classes.append(c)
    if not classes:
        raise AnalysisError('anchor vanished: no concrete Instruction class')
    a_classes = sorted(c for c in classes if (facts.args_attrs(c) or [])[-2:] == ['aq', 'rl'])
    covered = {}            # class -> number of (path, class) obligations examined
    problems = {}           # (class) -> list of (node, message)
    report.count('paths through ' + fn_name, len(paths))

    def fail(cls, node, msg, open_conds=()):
        if open_conds:
            raise AnalysisError('{}: {} (on a path that rests on the condition {} about the item, which the item class does not decide: '
                                'whether {} items take it is not understood)'.format(fn_name, msg[:120], show(open_conds[0])[:60], cls))
        problems.setdefault(cls, []).append((node, msg))

    for path in paths:
        packs = []
        for ev in path.events:
            for x in ev[1:-1]:
                if isinstance(x, tuple):
                    for t in subterms(x):
                        if pack_parts(facts, t) is not None and t not in packs:
                            packs.append(t)
        item = item_of_path(facts, path, packs)
        if item is None:
            if packs:
                raise AnalysisError('{}: struct.pack on a path that never identifies an Instruction item ({})'.format(fn_name, path.cond_text()))
            continue
        args_term = ('mcall', item, 'args', (), ())
        for cls in classes:
            if path.end == 'raise':
                continue            # a refusal: nothing is emitted for the item
            if not compatible(facts, path, item, cls):
                continue
            open_conds = undecided_item_conditions(facts, path, item, cls)
            if not packs:
                raise AnalysisError('{}: a path taken by {} items ends without struct.pack ({}): how the word is emitted is not '
                                    'understood'.format(fn_name, cls, path.cond_text()))
            if len(packs) > 1:
                raise AnalysisError('{}: {} struct.pack calls on one path taken by {} items'.format(fn_name, len(packs), cls))
            pack = packs[0]
            node = node_of(path, pack) or fn
            covered[cls] = covered.get(cls, 0) + 1
            report.count('(path, class) packing obligations')
            parts = pack_parts(facts, pack)
            if parts == 'unknown':
                raise AnalysisError('{}: call shape of the packing not understood: {}'.format(fn_name, show(pack)))
            fmt_v, code = parts[0], strip(parts[1])
            # (1) the packed value is the encoder's result, the encoder is looked up by the item's own mnemonic
            if code[0] == 'sub' and strip(code[1])[0] in ('dict', 'lv', 'name') and strip(code[1]) != ('name', 'INSTRUCTIONS'):
                # a word taken from a local memo table: the key must determine (mnemonic, operands) exactly
                key = strip(code[2])
                if key[0] == 'call' and key[1] in ('hash', 'id', 'len'):
                    report.fail(Finding(rule, fn_name, node,
                                        'the word packed for an instruction is taken from a table keyed by {}(...): different operand tuples can have the same key '
                                        '(hash(-1) == hash(-2) in CPython), so two instructions share one encoding'.format(key[1]),
                                        line=getattr(node, 'lineno', None)), instance='memo key')
                    continue
                exact = key[0] == 'tuple' and any(e == ('attr', item, 'name') for e in key[1]) and any(e == ('star', args_term) for e in key[1])
                if exact:
                    report.ok(rule, '{}: memoised word keyed by the exact (mnemonic, operands) tuple'.format(cls))
                    continue
                raise AnalysisError('{}: the word comes from a table keyed by {} (memo key not understood)'.format(fn_name, show(key)[:60]))
            if code[0] != 'callv' or strip(code[1])[0] != 'sub' or strip(code[1])[1] != ('name', 'INSTRUCTIONS'):
                raise AnalysisError('{}: the value packed is not the result of a call of INSTRUCTIONS[...]: {}'.format(fn_name, show(code)))
            key = strip(code[1])[2]
            key = strip(key)
            if key != ('attr', item, 'name'):
                # positively another key: an attribute of another object, another attribute of the item, a constant; anything else
                # (a conversion of the name, an expression the walk does not follow) is not understood
                wrong = is_const(key) or (key[0] == 'attr' and key[1] == item) or (key[0] == 'attr' and key[2] == 'name' and key[1][0] in ('name', 'var', 'lv', 'item'))
                if not wrong:
                    raise AnalysisError('{}: the key the encoder is looked up with is not understood: INSTRUCTIONS[{}]'.format(fn_name, show(key)[:60]))
                fail(cls, node, 'the encoder is not looked up by the item\'s own mnemonic: INSTRUCTIONS[{}]'.format(show(key)), open_conds=open_conds)
                continue
            # (2) arguments
            length = None
            attrs = facts.args_attrs(cls)
            if attrs is not None:
                length = len(attrs)
            try:
                pos, kws = call_arguments(code, args_term, length)
            except Arity as e:
                fail(cls, node, '{} items: {}'.format(cls, e), open_conds=open_conds)
                continue
            except NotUnderstood as e:
                raise AnalysisError('{}: arguments of the encoder call not understood ({}): {}'.format(fn_name, e, show(code)))
            is_a = cls in a_classes
            if pos == 'all':
                ok_args = not kws and not is_a
                got = '*item.args()'
            else:
                want_pos = list(range(length - 2)) if is_a else list(range(length))
                want_kws = {'aq': length - 2, 'rl': length - 1} if is_a else {}
                ok_args = pos == want_pos and kws == want_kws
                got = '({}{})'.format(', '.join('args()[{}]'.format(i) for i in pos),
                                      ''.join(', {}=args()[{}]'.format(k, i) for k, i in sorted(kws.items())))
            if not ok_args:
                if is_a:
                    fail(cls, node, '{} items: the encoder must receive args()[0..{}] positionally and the last two as aq=, rl= (in that '
                                    'order); it receives {}'.format(cls, length - 3, got), open_conds=open_conds)
                elif kws:
                    fail(cls, node, '{} items: keyword form used for a class whose args() does not end in aq, rl (classes that do: {}); '
                                    'the encoder receives {}'.format(cls, a_classes, got), open_conds=open_conds)
                else:
                    fail(cls, node, '{} items: arguments do not follow args() order: the encoder receives {}'.format(cls, got), open_conds=open_conds)
                continue
            # (3) format
            try:
                if fmt_v[0] == 'to_bytes':
                    size = value_under_class(facts, fmt_v[1], item, cls)
                    order = value_under_class(facts, fmt_v[2], item, cls)
                    signed = value_under_class(facts, fmt_v[3], item, cls)
                    got_descr = (size, order, not signed)
                    fmt = 'to_bytes({}, {!r}{})'.format(size, order, ', signed=True' if signed else '')
                else:
                    fmt = value_under_class(facts, fmt_v, item, cls)
                    got_descr = describe_format(fmt)
            except NotUnderstood as e:
                raise AnalysisError('{}: word format for {} items not understood ({}): {}'.format(fn_name, cls, e, show(fmt_v)))
            compressed = facts.is_subclass(cls, 'CompressedInstruction')
            want = '<H' if compressed else '<I'
            if got_descr != describe_format(want):
                fail(cls, node, 'instruction words must be packed as {!r} (little-endian unsigned {}-bit) for {} items, found {!r}'.format(
                    want, 16 if compressed else 32, cls, fmt), open_conds=open_conds)
                continue
            report.ok(rule, '{} [{}]: struct.pack({!r}, INSTRUCTIONS[item.name]({}))'.format(
                cls, path.cond_text()[:120], fmt, '*item.args()' if not is_a else '*args()[:-2], aq=args()[-2], rl=args()[-1]'))

    for cls in sorted(problems):
        for node, msg in problems[cls]:
            report.fail(Finding(rule, fn_name, node, msg, line=getattr(node, 'lineno', fn.lineno)), instance='{} {}'.format(cls, msg[:60]))
    if not problems:
        missing = [c for c in classes if c not in covered]
        if missing:
            raise AnalysisError('{}: no path on which a {} item is packed was found (of {} paths): the pass left the shape the rule '
                                'can follow'.format(fn_name, missing[0], len(paths)))
    report.count('instruction classes with a packing path', len(covered))
