"""C17 - the command line writes exactly the assembled program, or nothing on failure.

All rules are stated over the typed events of the fully inlined paths of asm.cli_main (bbverif.clirules): they do not depend on
how cli_main is split into helpers nor on the names of its variables.  A Finding is reported only for an event sequence the
analysis has positively understood; anything else is collected as `undecided` and ends the run with ANALYSIS-ERROR (unless a
violation has been established on the way)."""
import ast

from ..core import Report, Finding, AnalysisError
from ..facts import Facts
from ..pathwalk import show, is_const, C
from ..clirules import CliModel, strip, pieces, contains, given, same_bytes, catches, same_file

LEVEL = 'other'


def exit_arg_ok(exc):
    """raise SystemExit(x) with x neither None nor 0 / empty; any other exception ends the run with a traceback (non-zero)."""
    if is_const(exc) and exc[1] is None:
        return True                                          # bare `raise` inside a handler: re-raised
    if exc[0] not in ('call', 'new') or exc[1] != 'SystemExit':
        return exc[0] in ('call', 'new', 'exc', 'name', 'res', 'callv', 'mcall')
    if not exc[2]:
        return False
    a = strip(exc[2][0])
    if is_const(a):
        return bool(a[1]) and a[1] is not True
    return True


def zero_exit(exc):
    """raise SystemExit() / SystemExit(None) / SystemExit(0): the process ends with status 0"""
    if exc[0] not in ('call', 'new') or exc[1] != 'SystemExit' or exc[3]:
        return False
    if not exc[2]:
        return True
    a = strip(exc[2][0])
    return len(exc[2]) == 1 and is_const(a) and (a[1] is None or (isinstance(a[1], int) and a[1] == 0))


def in_handler(p):
    """does the path end inside an exception handler (an `except` that was entered and not left)?"""
    entered = []
    for ev in p.events:
        if ev[0] == 'except':
            entered.append(ev[2])
        elif ev[0] == 'swallowed' and ev[2] in entered:
            entered.remove(ev[2])
    return bool(entered)


def lines_source(v, path):
    """How a sequence of label lines is produced: dict(iter=<iterable value>, key=<symbol>, value=<symbol or None>, elt=<template>,
    filtered=bool) for a comprehension / generator / accumulated list, else None."""
    v = strip(v)
    if not isinstance(v, tuple) or not v:
        return None
    if v[0] == 'call' and v[1] in ('list', 'tuple', 'iter') and len(v[2]) == 1:
        return lines_source(v[2][0], path)
    if v[0] == 'comp':
        names = v[3].split(',')
        return {'iter': v[4], 'vars': [('var', n) for n in names], 'elt': v[2], 'filtered': bool(v[5])}
    if v[0] == 'accum':
        init, it, elem, meth = strip(v[1]), v[2], v[3], v[4]
        if not (init[0] == 'list' and not init[1]) or meth != 'append':
            return None
        loop = [e for e in path.events if e[0] == 'loop' and e[1] == it]
        if not loop:
            return None
        return {'iter': it, 'vars': loop_vars(loop[-1][2]), 'elt': elem, 'filtered': False}
    return None


def loop_vars(for_node):
    tag = 'loop@{}'.format(for_node.lineno)
    tgt = for_node.target
    elts = tgt.elts if isinstance(tgt, (ast.Tuple, ast.List)) else [tgt]
    return [('havoc', e.id, tag) if isinstance(e, ast.Name) else None for e in elts]


def label_iteration(it, table):
    """'items' | 'keys' when `it` iterates the label table handed to assemble (any order), 'other' when it is understood to
    iterate something else, None when not understood."""
    it = strip(it)
    if it[0] == 'call' and it[1] in ('sorted', 'list', 'tuple', 'iter', 'reversed') and it[2]:
        return label_iteration(it[2][0], table)
    if it == table:
        return 'keys'
    if it[0] == 'dictcomp':
        names = it[3].split(',')
        inner = strip(it[4])
        over_items = inner[0] == 'mcall' and inner[2] == 'items' and inner[1] == table
        if over_items and len(names) == 2 and it[1] == ('var', names[1]):
            return 'inverted'           # {address: name ...}: one entry per address
        if over_items and len(names) == 2 and it[1] == ('var', names[0]) and not it[5]:
            return 'keys'               # a copy of the table
    if it[0] == 'mcall' and it[2] in ('items', 'keys') and not it[3]:
        if it[1] == table:
            return it[2]
        if strip(it[1])[0] == 'dict' or not contains(it[1], table):
            return 'other'
        return None
    if not contains(it, table):
        return 'other'
    return None


def judge_line(elt, kvar, vvar, table, newline_added):
    """(ok, why) for one label line template; ok None = shape not understood."""
    ps = pieces(elt)
    if ps is None:
        return None, 'the text written for a label is built in a way the analysis does not model: {}'.format(show(elt)[:80])
    if newline_added:
        ps = ps + [('lit', '\n')]
    for p_ in ps:
        if p_[0] == 'val' and not contains(p_[1], kvar) and not (vvar is not None and contains(p_[1], vvar)) and not contains(p_[1], table):
            return None, 'a label line contains text that is neither a literal nor derived from the label: {}'.format(show(p_[1])[:60])
    has_key = any(p[0] == 'val' and contains(p[1], kvar) and not (vvar is None and contains(p[1], ('sub', table, kvar))) for p in ps)
    if vvar is not None:
        has_val = any(p[0] == 'val' and contains(p[1], vvar) for p in ps)
    else:
        has_val = any(p[0] == 'val' and (contains(p[1], ('sub', table, kvar)) or
                                         any(t for t in [p[1]] if contains(t, ('mcall', table, 'get', (kvar,), ())))) for p in ps)
    # the number written is the label's address itself (any notation), not something computed from it
    def bare(v):
        v = strip(v)
        while v[0] == 'call' and v[1] in ('hex', 'str', 'int', 'repr', 'format', 'oct', 'bin') and v[2]:
            v = strip(v[2][0])
        return v
    addr = vvar if vvar is not None else None
    for p in ps:
        if p[0] != 'val':
            continue
        b = bare(p[1])
        is_addr = (addr is not None and b == addr) or (addr is None and (b == ('sub', table, kvar) or b == ('mcall', table, 'get', (kvar,), ())))
        mentions_addr = (addr is not None and contains(b, addr)) or (addr is None and contains(b, ('sub', table, kvar)))
        if mentions_addr and not is_addr:
            if b[0] in ('bin', 'un'):
                return False, 'the number written for a label is {} instead of the address assemble() computed for it'.format(show(b)[:60])
            return None, 'the number written for a label ({}) is not followed back to its address'.format(show(b)[:60])
    lits = ''.join(p[1] for p in ps if p[0] == 'lit')
    terminated = bool(ps) and ps[-1][0] == 'lit' and ps[-1][1].endswith('\n')
    one_line = lits.count('\n') == 1
    if has_key and has_val and terminated and one_line:
        return True, ''
    return False, 'a label line does not contain both the name and the address, or is not exactly one newline-terminated line'


def run(repo, tier):
    facts = Facts(repo.asm)
    rep = Report('C17', LEVEL,
                 'Side-effect ordering on the symbolically enumerated paths of asm.cli_main, walked with every helper inlined: events ASM '
                 '(the assemble call), OPEN (a path opened for writing), HEX (bin2hex), FAIL (raise SystemExit / sys.exit / parser.error) and '
                 'CONV (an unguarded int() of option text).  No FAIL / CONV after any OPEN and ASM before every OPEN on every path '
                 '(no-clobber, hex offset validated first); the -o handle is opened in binary write mode and receives exactly the value '
                 'returned by assemble, once; the -l lines come one per entry from the very dict passed as labels= to assemble and hold '
                 'name and address; bin2hex runs after the binary has been closed, on the -o path, with int(hex_offset, 0), whenever '
                 '--hex-offset was given; handlers around the assembly and the option conversions end in a failing exit; option wiring '
                 '-c / -i / -o / -l resolved through the add_argument table.')
    rep.trusted_base = ['CPython ast', 'bbverif.pathwalk', 'argparse dest derivation', 'intelhex.bin2hex (third party) writes the same bytes at the given offset']
    rep.not_decided = ['failures of the operating system while writing (disk full, unwritable second file)', 'correctness of intelhex.bin2hex']
    model = CliModel(facts)
    fn = model.fn
    rep.count('paths through cli_main', len(model.paths))
    undecided = []
    n_w = 0
    n_ok_paths = 0
    # which try statements guard the assembly / an option conversion (decided on the events seen inside them on any path)
    inside = {}
    try_nodes = {}
    for pe in model.models:
        for e in pe.evs:
            for t in e.tries:
                inside.setdefault(id(t), set()).add(e.kind)
                try_nodes[id(t)] = t
    for pe in model.models:
        p = pe.p
        asm = pe.of('ASM')
        # what changes an existing file: an open that truncates (mode w; unknown mode counted), a write through a handle that was
        # opened without truncating (a / r+ / x), the hex conversion
        truncating = lambda e: e.mode is None or 'w' in e.mode
        ws = sorted([e for e in pe.of('OPEN') if truncating(e)] + [e for e in pe.of('WRITE') if not truncating(e.open)] + pe.of('HEX'), key=lambda e: e.idx)
        first_w = min([e.idx for e in ws], default=None)
        unknown_w = pe.of('WRITE?')
        # an explicit `raise SystemExit(0)` / sys.exit() outside every handler is how a successful run may end
        success_exit = p.end == 'raise' and zero_exit(p.events[-1][1]) and not in_handler(p)
        # ---- R17.1 no-clobber ------------------------------------------------------------------------------------
        for e in pe.of('FAIL', 'CONV'):
            if success_exit and e.kind == 'FAIL' and e.idx == len(p.events) - 1:
                continue
            if e.kind == 'CONV' and any(any(catches(ast.unparse(h.type) if h.type is not None else '*', {'ValueError'}) for h in t.handlers) for t in e.tries):
                continue
            if first_w is not None and e.idx > first_w:
                wnode = [w for w in ws if w.idx < e.idx][0].node
                what = 'this failing exit' if e.kind == 'FAIL' else 'this conversion of option text (it raises on malformed input)'
                rep.fail(Finding('R17.1.no-clobber', 'cli_main', e.node,
                                 '{} is reachable after an output file has already been opened for writing (line {}): a run that fails leaves '
                                 'existing output files overwritten'.format(what, wnode.lineno), line=e.node.lineno), instance='FAIL after W')
        for e in ws:
            n_w += 1
            ok = bool(asm) and asm[0].idx < e.idx
            rep.check(ok, 'R17.1.asm-first', 'assemble() completes before {} is written'.format(show(e.path)[:60] if e.kind == 'OPEN' else (show(e.open.path)[:60] if e.kind == 'WRITE' else 'the hex file')),
                      lambda e=e: Finding('R17.1.asm-first', 'cli_main', e.node, 'an output file is opened before the program has been assembled: a failing assembly clobbers it', line=e.node.lineno))
        if ws and not any(e.idx > first_w for e in pe.of('FAIL') if not (success_exit and e.idx == len(p.events) - 1)):
            rep.ok('R17.1.no-clobber', 'no failing exit after the first write on any path')
        # ---- R17.5 failing exits -----------------------------------------------------------------------------------
        for e in pe.of('SWALLOWED'):
            kinds = inside.get(id(e.node), set())
            relevant = ('ASM' in kinds and catches(e.handler, {'AssemblerError'})) or ('CONV' in kinds and catches(e.handler, {'ValueError'}))
            if relevant:
                h = [h for h in e.node.handlers if (ast.unparse(h.type) if h.type is not None else '*') == e.handler]
                rep.fail(Finding('R17.5.no-swallow', 'cli_main', h[0] if h else e.node, 'an exception handler swallows the error: the run continues and exits 0',
                                 line=(h[0] if h else e.node).lineno), instance='except {}'.format(e.handler))
        for e in pe.of('EXCEPT'):
            kinds = inside.get(id(e.node), set())
            if ('ASM' in kinds or 'CONV' in kinds) and not any(s.node is e.node for s in pe.of('SWALLOWED')):
                rep.ok('R17.5.no-swallow', 'handler `except {}` ends in a failing exit'.format(e.handler))
                rep.count('failure handlers analysed')
        if success_exit and not asm:
            undecided.append('a path through cli_main exits with status 0 without having called assemble()')
            continue
        if p.end == 'raise' and not success_exit:
            exc = p.events[-1][1]
            txt = show(exc)
            rep.check(exit_arg_ok(exc), 'R17.5.status', 'failing exit {} has a non-zero status'.format(txt[:50]),
                      lambda p=p, txt=txt: Finding('R17.5.status', 'cli_main', p.events[-1][2], 'this exit reports success (status 0 / no message): {}'.format(txt[:60]),
                                                   line=p.events[-1][2].lineno), nontrivial=False)
            continue
        # ---- a failure handler that ends in `return <status>` ------------------------------------------------------------
        handled = [e for e in pe.of('EXCEPT') if ('ASM' in inside.get(id(e.node), set()) or 'CONV' in inside.get(id(e.node), set()))]
        if p.end == 'return' and handled and not asm:
            rv = [e for e in p.events if e[0] == 'return']
            val = strip(rv[-1][1]) if rv and rv[-1][1] is not None else C(None)
            node_r = rv[-1][2] if rv else handled[-1].node
            if is_const(val) and val[1] in (None, 0, False, ''):
                rep.fail(Finding('R17.5.status', 'cli_main', node_r, 'the handler for a failed assembly returns {!r}: the run ends with exit status 0'.format(val[1]),
                                 line=node_r.lineno), instance='failing path returns a non-zero status that reaches the process')
            elif is_const(val):
                lost = discarded_return_sites(facts)
                rep.check(not lost, 'R17.5.status', 'failing path returns a non-zero status that reaches the process',
                          lambda lost=lost, node_r=node_r, val=val: Finding('R17.5.status', 'cli_main', node_r,
                                                                         'a failed assembly makes cli_main return {!r}, but the call at line {} discards the value: run that way '
                                                                         '(python -m bronzebeard.asm) the process exits 0 after the error'.format(val[1], lost[0].lineno),
                                                                         line=node_r.lineno))
            else:
                undecided.append('a failure handler returns {} (not a constant status)'.format(show(val)[:60]))
            continue
        # ---- successful paths --------------------------------------------------------------------------------------
        if pe.args is None or not asm:
            undecided.append('a path through cli_main ends normally without {}'.format('parsed arguments' if pe.args is None else 'an assemble() call'))
            continue
        n_ok_paths += 1
        if len(asm) > 1:
            undecided.append('assemble() is called more than once on a path')
            continue
        a = asm[0]
        binary = a.value
        o_out, o_lab, o_hex = model.option(pe, 'output'), model.option(pe, 'labels'), model.option(pe, 'hex')
        o_cmp, o_inc = model.option(pe, 'compress'), model.option(pe, 'include')
        opens = pe.of('OPEN')
        for e in opens:
            e.path = same_file(e.path)
        for e in opens:
            if e.path not in (o_out, o_lab):
                undecided.append('a file other than the -o / -l paths is opened for writing: {}'.format(show(e.path)[:60]))
        if unknown_w:
            undecided.append('a write through something that is not a handle of a recognised open(): {}'.format(show(unknown_w[0].recv)[:60]))
        # exactness of the binary
        def final(es):
            """The opens that determine what the file finally holds: from the last truncating open on; an open that neither
            truncates nor is written through (a writability probe) changes nothing."""
            es = [e for e in es if truncating(e) or any(w.open is e for w in pe.of('WRITE'))]
            last = max([k for k, e in enumerate(es) if truncating(e)], default=0)
            return es[last:]
        outs = final([e for e in opens if e.path == o_out])
        if not outs:
            later = p.events[a.idx + 1:]
            if not opens and not unknown_w and not any(contains(e_[1:-1], binary) for e_ in later):
                # nothing is opened for writing and the value returned by assemble() is never looked at again
                rep.fail(Finding('R17.2.exact', 'cli_main', a.node, 'there is a successful path on which the assembled program is dropped: no file is written',
                                 line=a.node.lineno), instance='the -o handle receives the value returned by assemble(), once')
            else:
                undecided.append('no recognised open() of the -o path on a successful path')
        for e in outs:
            mode = e.mode
            if mode is None:
                undecided.append('mode of the -o open() is not a literal')
            else:
                rep.check('w' in mode and 'b' in mode and 'a' not in mode and 'x' not in mode, 'R17.2.binary-mode', '-o file opened in binary write mode',
                          lambda e=e, mode=mode: Finding('R17.2.binary-mode', 'cli_main', e.node, 'the output file is opened with mode {!r} instead of \'wb\''.format(mode), line=e.node.lineno))
            wr = [w for w in pe.of('WRITE') if w.open is e]
            end = e.closed if e.closed is not None else len(p.events)
            if any(w.loops and [l for l in w.loops if l[0] > e.idx] for w in wr) or (not wr and any(x[0] == 'loop0' for x in p.events[e.idx:end])):
                undecided.append('the -o file is written inside a loop (chunked writing is not modelled)')
                continue
            verdicts = [same_bytes(w.args[0], binary) if (w.method == 'write' and len(w.args) == 1) else None for w in wr]
            if not wr and handle_escapes(e, p):
                undecided.append('the handle of the -o file is handed to something that is not followed')
            elif len(wr) == 1 and verdicts[0] is True:
                rep.ok('R17.2.exact', 'the -o handle receives the value returned by assemble(), once')
            elif len(wr) == 1 and verdicts[0] is None:
                undecided.append('what is written to the -o file is not understood: {}'.format(show(wr[0].args[0])[:80] if wr[0].args else wr[0].method))
            else:
                rep.fail(Finding('R17.2.exact', 'cli_main', wr[0].node if wr else e.node,
                                 'what is written to the output file is not exactly the assembled program, once: {}'.format(
                                     [show(x)[:60] for w in wr for x in w.args] if wr else 'nothing'), line=e.node.lineno),
                         instance='the -o handle receives the value returned by assemble(), once')
        # labels
        table = a.kw.get('labels')
        labs = final([e for e in opens if e.path == o_lab])
        if given(p, o_lab) is True and not labs:
            undecided.append('-l was given but no recognised open() of its path follows')
        for e in labs:
            if table is None:
                undecided.append('assemble() does not receive a labels= table')
                continue
            if e.mode is None or 'b' in e.mode:
                undecided.append('mode of the -l open() is not a literal text mode')
            else:
                rep.check('w' in e.mode and 'a' not in e.mode, 'R17.3.mode', '-l file opened for (over)writing text',
                          lambda e=e: Finding('R17.3.mode', 'cli_main', e.node, 'the labels file is opened with mode {!r}: older lines survive'.format(e.mode), line=e.node.lineno), nontrivial=False)
            wr = [w for w in pe.of('WRITE') if w.open is e]
            verdict, why = judge_labels(wr, e, table, p)
            if verdict is None:
                undecided.append(why)
            else:
                rep.check(verdict, 'R17.3.labels', '-l file: one line per item of the dict passed as labels= to assemble()',
                          lambda e=e, why=why: Finding('R17.3.labels', 'cli_main', e.node, why, line=e.node.lineno))
        # hex
        hexes = pe.of('HEX')
        for h in hexes:
            hargs = list(h.pos)
            opened = [e for e in outs if e.idx < h.idx]
            closed = [e for e in opened if e.closed is not None and e.closed < h.idx]
            if outs:            # no recognised open() of the -o path: reported as not understood above
                rep.check(bool(opened) and len(closed) == len(opened), 'R17.4.hex-after-close', 'bin2hex runs after the binary file is written and closed',
                          lambda h=h: Finding('R17.4.hex-after-close', 'cli_main', h.node, 'the hex file is produced before the binary file has been written and closed', line=h.node.lineno))
            fin = hargs[0] if hargs else h.kw.get('fin')
            fout = hargs[1] if len(hargs) > 1 else h.kw.get('fout')
            off = hargs[2] if len(hargs) > 2 else h.kw.get('offset')
            verdict, why = judge_hex_args(fin, fout, off, o_out, o_hex, pe.args)
            if verdict is None:
                undecided.append(why)
            else:
                rep.check(verdict, 'R17.4.hex-args', 'bin2hex(output, output + ".hex", int(hex_offset, 0))',
                          lambda h=h, why=why: Finding('R17.4.hex-args', 'cli_main', h.node, why, line=h.node.lineno))
        g = given(p, o_hex)
        if g is True and not hexes:
            if any('intelhex' in e.text for e in pe.of('IMPORT')):
                undecided.append('--hex-offset given and intelhex imported, but no bin2hex(...) call is recognised')
            else:
                last = opens[-1].node if opens else a.node
                rep.fail(Finding('R17.4.hex-produced', 'cli_main', last,
                                 'there is a successful path on which --hex-offset was given but no Intel HEX file is written (the decision is taken on something other than '
                                 'the presence of the option, e.g. on the parsed value, so `--hex-offset 0` is skipped)', line=a.node.lineno),
                         instance='a successful run with --hex-offset writes the hex file')
        elif g is True:
            rep.ok('R17.4.hex-produced', 'a successful run with --hex-offset writes the hex file')
        elif g is False:
            rep.check(not hexes, 'R17.4.hex-produced', 'no hex file without --hex-offset',
                      lambda: Finding('R17.4.hex-produced', 'cli_main', hexes[0].node, 'a hex file is written although --hex-offset was not given', line=hexes[0].node.lineno), nontrivial=False)
        elif hexes:
            undecided.append('a hex file is written on a path where the presence of --hex-offset is not decided')
        # argument wiring
        if None in a.kw:
            raise AnalysisError('cli_main: assemble() is called with **{}: which keyword arguments it receives is not established'.format(show(a.kw[None])[:60]))
        cmp_arg = a.kw.get('compress')
        if cmp_arg is not None:
            cmp_arg = strip(cmp_arg)
            while cmp_arg[0] == 'call' and cmp_arg[1] == 'bool' and len(cmp_arg[2]) == 1 and not cmp_arg[3]:
                cmp_arg = strip(cmp_arg[2][0])                   # bool(flag): the same decision
        if cmp_arg is None or cmp_arg == o_cmp or is_const(cmp_arg) or (cmp_arg[0] == 'attr' and cmp_arg[1] == pe.args):
            rep.check(cmp_arg == o_cmp, 'R17.5.wiring', '-c reaches assemble(compress=)',
                      lambda: Finding('R17.5.wiring', 'cli_main', a.node, 'the -c option is not what assemble() receives as compress', line=a.node.lineno), nontrivial=False)
        else:
            undecided.append('what assemble() receives as compress= is not followed back to the -c option: {}'.format(show(cmp_arg)[:60]))
        inc = a.kw.get('include_dirs')
        loop_ran = any(e[0] == 'loop' and contains(e[1], o_inc) for e in p.events)
        inc_s = strip(inc) if inc is not None else None
        if inc is None or is_const(inc_s) or (inc_s[0] in ('list', 'tuple') and not any(contains(x, pe.args) for x in inc_s[1]) and loop_ran):
            # nothing / a constant / a display that does not mention the options although -i directories were iterated
            inc_ok = False
        elif not loop_ran or contains(inc, o_inc):
            inc_ok = True
        else:
            inc_ok = None
        if inc_ok is None:
            undecided.append('what assemble() receives as include_dirs= is not followed back to the -i option: {}'.format(show(inc)[:60]))
        else:
            rep.check(inc_ok, 'R17.5.wiring', '-i directories reach assemble(include_dirs=)',
                      lambda: Finding('R17.5.wiring', 'cli_main', a.node, 'include directories are not passed to assemble()', line=a.node.lineno), nontrivial=False)
    rep.analysed['write events on paths'] = n_w
    rep.analysed['successful paths analysed'] = n_ok_paths
    if undecided and not rep.findings:
        raise AnalysisError('cli_main: ' + undecided[0] + (' (+{} more)'.format(len(set(undecided)) - 1) if len(set(undecided)) > 1 else ''))
    rep.floor('paths through cli_main', 8)
    rep.floor('successful paths analysed', 4)
    rep.floor('write events on paths', 4)
    return rep


def handle_escapes(op, path):
    """Is the handle of an open() handed to something between the open and its close (a call / constructor / method that is not
    one of the recognised write / close events)?  Whatever is written there is not seen."""
    end = op.closed if op.closed is not None else len(path.events)
    for ev in path.events[op.idx + 1:end]:
        if ev[0] == 'mcall' and ev[1] == op.handle:
            continue                    # a method of the handle itself: write / close / flush ...
        if ev[0] in ('value', 'expr') and isinstance(ev[1], tuple) and strip(ev[1])[:1] == ('mcall',) and strip(ev[1])[1] == op.handle:
            continue
        if contains(ev[1:-1], op.handle):
            return True
    return False


def judge_labels(wr, op, table, path):
    """(True / False / None, why) for the writes on the -l handle."""
    end = op.closed if op.closed is not None else len(path.events)
    empty_before = [e for e in path.events[:end] if e[0] == 'loop0' and label_iteration(e[1], table) in ('items', 'keys')]
    if not wr:
        if any(e in path.events[op.idx:end] for e in empty_before):
            return True, ''            # the loop over the label table ran zero times: an empty table gives an empty file
        if handle_escapes(op, path):
            return None, 'the handle of the labels file is handed to something that is not followed'
        return False, 'nothing is written to the labels file'
    if len(wr) != 1:
        return None, 'the labels file is written by several statements (not modelled)'
    w = wr[0]
    inner_loops = [l for l in w.loops if l[0] > op.idx]
    newline_added = False
    if w.method == 'print':
        end = w.kw.get('end')
        if end is not None or len(w.args) != 1 or 'sep' in w.kw:
            return None, 'print(..., file=<labels file>) with end= / sep= / several values is not modelled'
        newline_added = True
    if inner_loops:
        if len(inner_loops) != 1 or w.method == 'writelines':
            return None, 'label lines written from nested loops (not modelled)'
        idx, for_node, it = inner_loops[0]
        src = {'iter': it, 'vars': loop_vars(for_node), 'elt': w.args[0] if w.args else None, 'filtered': False}
        # a conditional write inside the loop drops labels
        conds = [e for e in path.events[idx:w.idx] if e[0] == 'cond']
        if conds:
            return None, 'label lines are written under a condition inside the loop (not modelled)'
    elif w.method == 'writelines' and len(w.args) == 1:
        src = lines_source(w.args[0], path)
    elif w.method in ('write', 'print') and len(w.args) == 1:
        s = strip(w.args[0])
        if s[0] == 'mcall' and s[2] == 'join' and is_const(strip(s[1])) and strip(s[1])[1] in ('', '\n') and len(s[3]) == 1:
            src = lines_source(s[3][0], path)
            if strip(s[1])[1] == '\n':
                return None, 'label lines joined with a newline separator (termination of the last line not modelled)'
        else:
            src = None
    else:
        src = None
    if src is None and w.args and strip(w.args[0]) in (('list', ()), C('')) and empty_before:
        return True, ''                # lines accumulated by a loop over the label table that ran zero times
    if src is None or src['elt'] is None:
        return None, 'how the label lines are produced is not understood: {}'.format(show(w.args[0])[:80] if w.args else w.method)
    kind = label_iteration(src['iter'], table)
    if kind == 'other':
        return False, 'the lines are not produced from the label table handed to assemble()'
    if kind == 'inverted':
        return False, 'the lines are produced from a table keyed by address: labels that share an address collapse into a single line'
    if kind is None:
        return None, 'the iteration that produces the label lines is not understood: {}'.format(show(src['iter'])[:80])
    if src['filtered']:
        return None, 'label lines are filtered (not modelled)'
    vs = src['vars']
    if kind == 'items':
        if len(vs) != 2 or None in vs:
            return None, 'label items are not unpacked into (name, address)'
        kvar, vvar = vs
    else:
        if len(vs) != 1 or None in vs:
            return None, 'label names are not iterated by a single variable'
        kvar, vvar = vs[0], None
    return judge_line(src['elt'], kvar, vvar, table, newline_added)


def discarded_return_sites(facts):
    """Module-level calls of cli_main() whose result is thrown away (`if __name__ == '__main__': cli_main()`): a status that
    cli_main *returns* never becomes the exit status there.  sys.exit(cli_main()) / raise SystemExit(cli_main()) keep it."""
    out = []
    for st in facts.tree.body:
        for n in ast.walk(st) if not isinstance(st, (ast.FunctionDef, ast.ClassDef)) else []:
            if isinstance(n, ast.Expr) and isinstance(n.value, ast.Call) and isinstance(n.value.func, ast.Name) and n.value.func.id == 'cli_main':
                out.append(n)
    return out


def judge_hex_args(fin, fout, off, o_out, o_hex, args_value):
    if fin is None or fout is None or off is None:
        return None, 'bin2hex is not called with (input, output, offset)'

    def understood_path(v):
        ps = pieces(v)
        return ps is not None and all(p[0] == 'lit' or (p[1][0] == 'attr' and p[1][1] == args_value) for p in ps)
    want_out = [('val', o_out), ('lit', '.hex')]
    fin = same_file(fin)
    fp = pieces(fout)
    if fp is not None:
        fout_pieces = [('val', same_file(x[1])) if x[0] == 'val' else x for x in fp]
    else:
        fout_pieces = None
    if fin != o_out:
        if understood_path(fin):
            return False, 'bin2hex reads {} instead of the -o file'.format(show(fin)[:60])
        return None, 'the input path of bin2hex is not understood: {}'.format(show(fin)[:60])
    if fout_pieces != want_out:
        if understood_path(fout):
            return False, 'bin2hex writes {} instead of <output>.hex'.format(show(fout)[:60])
        return None, 'the output path of bin2hex is not understood: {}'.format(show(fout)[:60])
    o = strip(off)
    if o[0] == 'call' and o[1] == 'int' and o[2] and o[2][0] == o_hex:
        base = dict(o[3]).get('base', o[2][1] if len(o[2]) > 1 else None)
        if base == C(0):
            return True, ''
        return False, 'the hex offset is parsed with base {} instead of base 0 (0x.. / 0b.. / decimal spellings)'.format(show(base) if base else 'ten')
    if is_const(o) or (o[0] == 'attr' and o[1] == args_value):
        return False, 'bin2hex is called with the offset {} instead of int(<--hex-offset>, 0)'.format(show(o)[:60])
    return None, 'the offset handed to bin2hex is not understood: {}'.format(show(o)[:60])
