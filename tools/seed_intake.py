#!/venv/bin/python
"""Intake of a seeded change delivered by an independent sub-agent (developer tool, not a registered check).

  tools/seed_intake.py <worktree> <prop> <name>

The worktree holds the change (applied) and _out/{patch.diff,demo.py,notes.txt}; demo.py takes the tree as argv[1].
1. patch.diff is regenerated from `git diff -- bronzebeard` (tests must be untouched)
2. confirmed here: test suite passes with the change; demo exits non-zero on the worktree and 0 on /repo
3. every property check runs with --repo <worktree>; the verdict for the target property is recorded
4. stored under /verif/seeded/<name>/ (patch.diff, demo.py, meta.json) when confirmed
"""
import json
import os
import shutil
import subprocess
import sys
from concurrent.futures import ThreadPoolExecutor

VERIF = os.path.dirname(os.path.dirname(os.path.abspath(__file__)))
PY = '/venv/bin/python'
PROPS = ['C%02d' % i for i in range(1, 21)]


def sh(cmd, cwd=None):
    r = subprocess.run(cmd, shell=True, cwd=cwd, capture_output=True, text=True)
    return r.returncode, r.stdout + r.stderr


def main():
    wt, prop, name = os.path.abspath(sys.argv[1]), sys.argv[2], sys.argv[3]
    _, diff = sh('git diff -- bronzebeard docs', cwd=wt)
    _, other = sh('git diff --stat -- tests', cwd=wt)
    if not diff.strip() or other.strip():
        print('REJECT: empty change or tests touched')
        return 2
    touched = [l[6:] for l in diff.splitlines() if l.startswith('+++ b/')]
    demo = os.path.join(wt, '_out', 'demo.py')
    if not os.path.exists(demo):
        print('REJECT: no demo.py')
        return 2
    _, out_t = sh('{} -m pytest -q -p no:cacheprovider 2>&1 | tail -2'.format(PY), cwd=wt)
    tests_ok = ' passed' in out_t and 'failed' not in out_t and 'error' not in out_t
    rc1, o1 = sh('{} {} {}'.format(PY, demo, wt), cwd='/')
    rc0, o0 = sh('{} {} /repo'.format(PY, demo), cwd='/')
    print('tests:', out_t.strip().splitlines()[-1] if out_t.strip() else '?', '| demo with change exit', rc1, '| on /repo exit', rc0)
    confirmed = tests_ok and rc1 == 1 and rc0 == 0
    print('CONFIRMED' if confirmed else 'NOT CONFIRMED')
    if not confirmed:
        print(o1[-400:], o0[-400:])

    def run(p):
        rc, out = sh('{} {}/bbverif/check.py {} --repo {} --no-evidence'.format(PY, VERIF, p, wt))
        lines = [l.strip() for l in out.splitlines() if l.strip().startswith('finding') or l.startswith('ANALYSIS-ERROR')]
        return p, rc, (lines[0][:300] if lines else '')
    with ThreadPoolExecutor(16) as ex:
        res = list(ex.map(run, PROPS))
    for p, rc, line in res:
        if rc != 0:
            print('  {} exit={} {}'.format(p, rc, line))
    caught = [p for p, rc, _ in res if rc == 1]
    undecided = [p for p, rc, _ in res if rc == 2]
    verdict = 'caught' if prop in caught else ('undecided' if prop in undecided else 'missed')
    print('target', prop, verdict.upper(), '| fired', caught, '| undecided', undecided)
    if confirmed:
        d = os.path.join(VERIF, 'seeded', name)
        os.makedirs(d, exist_ok=True)
        with open(os.path.join(d, 'patch.diff'), 'w') as f:
            f.write(diff)
        shutil.copy(demo, os.path.join(d, 'demo.py'))
        notes = ''
        if os.path.exists(os.path.join(wt, '_out', 'notes.txt')):
            notes = open(os.path.join(wt, '_out', 'notes.txt')).read()
        meta = {
            'id': name, 'breaks_property': prop, 'summary': notes.strip(), 'touched_files': touched,
            'confirmed': {'tests_pass_with_change': tests_ok, 'demo_exit_with_change': rc1, 'demo_exit_without_change': rc0,
                          'commands': ['cd <worktree with patch.diff applied> && /venv/bin/python -m pytest -q -p no:cacheprovider',
                                       '/venv/bin/python demo.py <changed tree>', '/venv/bin/python demo.py /repo']},
            'checks_fired': caught, 'checks_undecided': undecided, 'first_run_verdict': verdict, 'verdict': verdict,
            'note': 'demo.py takes the tree (a directory containing bronzebeard/) as its first argument',
        }
        with open(os.path.join(d, 'meta.json'), 'w') as f:
            json.dump(meta, f, indent=1)
        print('kept in', d)
    return 0


if __name__ == '__main__':
    sys.exit(main())
