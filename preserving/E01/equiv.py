"""Differential test: original encoders (/repo, read-only) vs refactored copy.

Every call is made against both modules; the outcomes (returned integer, or the
exception *type*) have to be the same.
"""
import functools
import importlib.util
import inspect
import itertools
import random
import sys

sys.dont_write_bytecode = True

ORIG_PATH = '/repo/bronzebeard/asm.py'
NEW_PATH = '/tmp/vw/abit/.scratch/rA/bronzebeard/asm.py'


def load(name, path):
    spec = importlib.util.spec_from_file_location(name, path)
    module = importlib.util.module_from_spec(spec)
    sys.modules[name] = module
    spec.loader.exec_module(module)
    return module


orig = load('asm_original', ORIG_PATH)
new = load('asm_refactored', NEW_PATH)
assert orig.__file__ == ORIG_PATH and new.__file__ == NEW_PATH

rng = random.Random(0xB20)

comparisons = 0
differences = []
raised = 0
per_mnemonic = {}


def outcome(func, args, kwargs):
    try:
        return ('ok', func(*args, **kwargs))
    except Exception as e:  # compare the exception type, not the message
        return ('raise', type(e).__name__)


def compare(label, f_orig, f_new, *args, **kwargs):
    global comparisons, raised
    a = outcome(f_orig, args, kwargs)
    b = outcome(f_new, args, kwargs)
    comparisons += 1
    per_mnemonic[label] = per_mnemonic.get(label, 0) + 1
    if a[0] == 'raise':
        raised += 1
    if a != b or (a[0] == 'ok' and type(a[1]) is not type(b[1])):
        differences.append((label, args, kwargs, a, b))
        if len(differences) <= 40:
            print('DIFF', label, args, kwargs, a, b)


# ---------------------------------------------------------------- inputs

VALID_REGS = sorted((k for k in orig.REGISTERS if isinstance(k, int))) \
    + sorted(k for k in orig.REGISTERS if isinstance(k, str))
ODD_REGS = [
    '0x0', '0x1f', '0x8', '0xf', '0x10', '0x20', '0b1000', '0o17', '0O10', '0X1F', '010', '08', '1_0', ' 9 ', '+5', '-1',
    -1, 32, 33, 255, 'x32', 'x-1', 'X5', 'A0', 'a8', 's12', 't7', 'pc', '', ' ', 'foo', 'zero ', 'x', '0x', '1.0',
    True, False, None, 8.0, 9.5, b'9', b'x9', (8,), 1 << 40, '99999999999999999999',
]
ALL_REGS = VALID_REGS + ODD_REGS
COMMON_REGS = [8, 'x9', 'a0', '11', 's0', 'fp', 'a5', '0xc', 14, 1, 'x0', 2, 'sp', 't6']


def imm_values(n_random):
    values = set()
    for p in range(0, 22):
        for d in range(-40, 41):
            values.add((1 << p) + d)
            values.add(-(1 << p) + d)
            values.add(-((1 << p) + d))
    values.update(range(-300, 301))
    # the "upper" wrap windows and their surroundings
    for base in (0x80000, 0xfffe0, 0xfffff, 0x100000, 0xfff, 0x7ffff):
        values.update(range(base - 70, base + 71))
    # far out of range
    values.update([1 << 31, (1 << 31) - 1, -(1 << 31), (1 << 32), (1 << 32) - 1, (1 << 32) + 2, -(1 << 32),
                   (1 << 64) + 4, -(1 << 64), 10**30, -10**30 + 1])
    fixed = sorted(values)
    rand = []
    for _ in range(n_random):
        kind = rng.random()
        if kind < 0.30:
            rand.append(rng.randint(-70, 70))
        elif kind < 0.55:
            rand.append(rng.randint(-1100, 1100))
        elif kind < 0.75:
            rand.append(rng.randint(-5000, 5000))
        elif kind < 0.90:
            rand.append(rng.randint(-(1 << 21), 1 << 21))
        else:
            rand.append(rng.randint(-(1 << 34), 1 << 34))
    return fixed + rand


FENCE_VALUES = list(range(-3, 21)) + ['0b11', '0b1111', '0b10000', '0xf', '0x10', '15', '16', '-1', '0', '', 'rw', 'iorw',
                                      '0o7', True, None, 3.0, ' 4 ']
AQRL_VALUES = [0, 1, 2, -1, '1', '0', '2', '0b1', '0x1', 'x', '', True, False, None, 1.0]


def positional_names(func):
    """names of the positional parameters a partial still expects"""
    if isinstance(func, functools.partial):
        base, bound = func.func, set(func.keywords)
    else:
        base, bound = func, set()
    sig = inspect.signature(base)
    return [p.name for p in sig.parameters.values()
            if p.kind == p.POSITIONAL_OR_KEYWORD and p.name not in bound]


REG_NAMES = {'rd', 'rs1', 'rs2', 'rd_rs1'}


def pick_reg(compressed_bias):
    r = rng.random()
    if compressed_bias and r < 0.7:
        return rng.choice(COMMON_REGS)
    if r < 0.92:
        return rng.choice(VALID_REGS)
    return rng.choice(ODD_REGS)


# ---------------------------------------------------------------- lookup_register

def test_lookup_register():
    for reg in ALL_REGS:
        compare('lookup_register', orig.lookup_register, new.lookup_register, reg)
        for compressed in (False, True, 0, 1, None, 'yes'):
            compare('lookup_register', orig.lookup_register, new.lookup_register, reg, compressed)
            compare('lookup_register', orig.lookup_register, new.lookup_register, reg, compressed=compressed)
    for n in range(-40, 300):
        for spelling in (n, str(n), hex(n), bin(n), oct(n), 'x{}'.format(n), 'a{}'.format(n), 's{}'.format(n), 't{}'.format(n)):
            for compressed in (False, True):
                compare('lookup_register', orig.lookup_register, new.lookup_register, spelling, compressed=compressed)


# ---------------------------------------------------------------- mnemonics

def test_mnemonic(name, n_random):
    f_orig = orig.INSTRUCTIONS[name]
    f_new = new.INSTRUCTIONS[name]
    names = positional_names(f_orig)
    assert names == positional_names(f_new), name
    assert f_orig.keywords.keys() == f_new.keywords.keys()
    for key, value in f_orig.keywords.items():
        if key != 'cs':
            assert value == f_new.keywords[key] and type(value) is type(f_new.keywords[key]), (name, key)
        else:
            assert len(value) == len(f_new.keywords[key])
    compressed = name.startswith('c.')
    regs = [n for n in names if n in REG_NAMES]
    takes_aqrl = f_orig.func is orig.a_type

    def call(*args, **kwargs):
        compare(name, f_orig, f_new, *args, **kwargs)

    # arity errors etc
    call()
    call(*([8] * (len(names) + 1)))

    if names == [] or all(n in REG_NAMES for n in names):
        # (a) every spelling in every register slot, others fixed at a few values
        for i in range(len(regs)):
            for reg in ALL_REGS:
                for others in ([8] * len(regs), ['a0'] * len(regs), [0] * len(regs), ['x2'] * len(regs), ['foo'] * len(regs)):
                    args = list(others)
                    args[i] = reg
                    call(*args)
        # all pairs / random triples of spellings
        if len(regs) == 2:
            for a, b in itertools.product(ALL_REGS, repeat=2):
                call(a, b)
        for _ in range(n_random if regs else 0):
            call(*[pick_reg(compressed) for _ in regs])
        if takes_aqrl:
            # (d) aq / rl
            for aq, rl in itertools.product(AQRL_VALUES, repeat=2):
                for args in (['a0'] * len(regs), [5, 'x6', '0x7'][:len(regs)], ['bad'] * len(regs)):
                    call(*args, aq=aq, rl=rl)
                    call(*args, aq=aq)
                    call(*args, rl=rl)
            for _ in range(n_random // 4):
                call(*[pick_reg(False) for _ in regs], aq=rng.choice(AQRL_VALUES), rl=rng.choice(AQRL_VALUES))
        return

    if names == ['succ', 'pred']:
        # (c) fence
        for succ, pred in itertools.product(FENCE_VALUES, repeat=2):
            call(succ, pred)
        for succ in FENCE_VALUES:
            call(succ)
            call(succ, pred=3)
        return

    assert names[-1] == 'imm' and all(n in REG_NAMES for n in names[:-1]), (name, names)

    # (a) every spelling in every register slot with a handful of immediates
    some_imms = [0, 1, 2, 4, 8, 16, -2, -16, 31, 32, -32, 100, 124, 128, 252, 256, 508, 512, 1020, 2046, 2047, -2048, 4096]
    for i in range(len(regs)):
        for reg in ALL_REGS:
            for imm in some_imms:
                args = [rng.choice(COMMON_REGS) for _ in regs]
                args[i] = reg
                call(*args, imm)
    # (b) immediates
    for imm in imm_values(n_random):
        for fixed in (['a0'] * len(regs), ):
            call(*fixed, imm)
        if regs:
            call(*[pick_reg(compressed) for _ in regs], imm)
    # non-int immediates
    for imm in (None, '4', 4.0, 2.5, True, False, float('inf'), [4]):
        call(*['a0'] * len(regs), imm)


# ---------------------------------------------------------------- raw encoders

ENCODERS = ['r_type', 'i_type', 'ij_type', 's_type', 'b_type', 'u_type', 'j_type', 'fence', 'a_type', 'cr_type', 'ci_type',
            'cia_type', 'ciu_type', 'cil_type', 'css_type', 'ciw_type', 'cl_type', 'cs_type', 'ca_type', 'cb_type',
            'cbi_type', 'cj_type']
CONSTRAINTS = ['RegRdNotZero', 'RegRs1NotZero', 'RegRs2NotZero', 'RegRdRs1NotZero', 'RegRdRs1NotTwo', 'ImmNotZero',
               'ShamtBit5Zero']


def test_raw_encoders(n_random):
    """call the *_type functions directly with arbitrary opcode / funct / cs keywords"""
    for fname in ENCODERS:
        fo, fn = getattr(orig, fname), getattr(new, fname)
        so, sn = inspect.signature(fo), inspect.signature(fn)
        assert [(p.name, p.kind, p.default) for p in so.parameters.values()] == \
               [(p.name, p.kind, p.default) for p in sn.parameters.values()], fname
        params = list(so.parameters.values())
        label = 'raw:' + fname
        for _ in range(n_random):
            args, kwargs = [], {}
            for p in params:
                if p.name in REG_NAMES and p.kind == p.POSITIONAL_OR_KEYWORD:
                    value = pick_reg(fname.startswith('c'))
                elif p.name == 'imm':
                    value = rng.choice([rng.randint(-64, 64), rng.randint(-1100, 1100), rng.randint(-5000, 5000) * 2,
                                        rng.randint(-(1 << 21), 1 << 21), rng.randint(0xfff00, 0x100010), 0])
                elif p.name in ('succ', 'pred'):
                    value = rng.choice(FENCE_VALUES)
                elif p.name in ('aq', 'rl'):
                    if rng.random() < 0.3:
                        continue
                    value = rng.choice(AQRL_VALUES)
                elif p.name == 'cs':
                    r = rng.random()
                    if r < 0.2:
                        continue
                    elif r < 0.3:
                        value = rng.choice([None, [], ()])
                    else:
                        k = rng.randint(1, 3)
                        picks = rng.sample(CONSTRAINTS, k)
                        # constraint objects belong to each module: pass by name, resolved below
                        value = picks
                elif p.name in ('rd', 'rs1') and p.kind == p.KEYWORD_ONLY:
                    value = pick_reg(False)
                else:
                    # opcode / functN / fm: mostly well-formed, sometimes oversized or negative
                    value = rng.choice([rng.randint(0, 3), rng.randint(0, 127), rng.randint(0, 127), rng.randint(0, 1 << 12),
                                        -rng.randint(1, 200), rng.randint(0, 1 << 33)])
                if p.kind == p.POSITIONAL_OR_KEYWORD and rng.random() < 0.8:
                    args.append(value)
                else:
                    kwargs[p.name] = value
            # positional args must be a prefix: anything after a keyword-passed positional goes to kwargs too
            pos_params = [p.name for p in params if p.kind == p.POSITIONAL_OR_KEYWORD]
            if len(args) != len(pos_params):
                # rebuild: pass everything we have by keyword to keep the call well formed
                vals = dict(zip([n for n in pos_params if n not in kwargs], args))
                kwargs.update(vals)
                args = []
            if 'cs' in kwargs:
                picks = kwargs['cs']
                if picks and isinstance(picks[0], str):
                    ko = dict(kwargs, cs=[getattr(orig, c) for c in picks])
                    kn = dict(kwargs, cs=[getattr(new, c) for c in picks])
                    compare_split(label, fo, fn, args, ko, kn)
                    continue
            compare(label, fo, fn, *args, **kwargs)


def compare_split(label, f_orig, f_new, args, k_orig, k_new):
    global comparisons, raised
    a = outcome(f_orig, args, k_orig)
    b = outcome(f_new, args, k_new)
    comparisons += 1
    per_mnemonic[label] = per_mnemonic.get(label, 0) + 1
    if a[0] == 'raise':
        raised += 1
    if a != b:
        differences.append((label, args, k_orig, a, b))
        if len(differences) <= 40:
            print('DIFF', label, args, k_orig, a, b)


def test_constraint_factories():
    values = list(range(-70, 70)) + [1 << 5, 1 << 6, -(1 << 5), 1 << 40]
    for cname in CONSTRAINTS:
        co, cn = getattr(orig, cname), getattr(new, cname)
        for field in ('rd', 'rs1', 'rs2', 'rd_rs1', 'imm'):
            for v in values:
                compare('constraint:' + cname, co, cn, **{field: v, 'other': 1})
    for field, value in itertools.product(('imm', 'rd'), (0, 2, -1, 32)):
        co, cn = orig.constraint_not(field, value), new.constraint_not(field, value)
        for v in values:
            compare('constraint_not', co, cn, imm=v, rd=v + 1)
    for bit, value in itertools.product((0, 1, 5, 6, 11), (0, 1, 2, 32, 64)):
        co, cn = orig.constraint_bit('imm', bit, value), new.constraint_bit('imm', bit, value)
        for v in values:
            compare('constraint_bit', co, cn, imm=v, rd=v + 1)


# ---------------------------------------------------------------- whole programs

def test_assemble():
    import glob
    import os
    sources = []
    for path in sorted(glob.glob('/repo/examples/*.asm')):
        sources.append((path, open(path).read()))
    lines = []
    for i in range(4000):
        m = rng.choice(['addi t0, t1, {}', 'lw a0, {}(sp)', 'sw a0, {}(sp)', 'lui a0, {}', 'jal ra, {}', 'beq a0, a1, {}',
                        'c.addi x9, {}', 'c.li a0, {}', 'c.lui a1, {}', 'c.slli a0, {}', 'c.srli a0, {}', 'c.andi a0, {}',
                        'c.lwsp a0, {}(sp)', 'c.swsp a0, {}(sp)', 'c.lw a0, {}(a1)', 'c.sw a0, {}(a1)', 'c.j {}', 'c.jal {}',
                        'c.beqz a0, {}', 'c.addi16sp sp, {}', 'c.addi4spn a0, sp, {}', 'jalr ra, {}(t0)', 'auipc a0, {}',
                        'slli a0, a1, {}', 'li a0, {}', 'fence {}, 3', 'amoadd.w a0, a1, (a2)', 'c.mv a0, a1', 'c.nop',
                        'csrrw a0, {}, a1', 'mul a0, a1, a2', 'c.sub a0, a1', 'ecall', 'j {}', 'beqz a0, {}', 'call {}'])
        lines.append(m.format(rng.choice([rng.randint(-40, 40), rng.randint(-40, 40) * 4, rng.randint(-600, 600) * 2,
                                          rng.randint(-3000, 3000), rng.randint(0, 0xfffff)])))
    for i, line in enumerate(lines):
        sources.append(('line{}'.format(i), line + '\n'))
    # chunks of lines that all assemble, as programs (exercises label / position dependent passes)
    good = []
    for line in lines:
        try:
            orig.assemble(line + '\n')
            good.append(line)
        except Exception:
            pass
    for i in range(0, len(good), 50):
        body = '\n'.join(good[i:i + 50])
        sources.append(('prog{}'.format(i), 'start:\n' + body + '\nend:\n'))
        sources.append(('progc{}'.format(i), 'start:\n' + body + '\nend:\n', True))

    def run(mod, source, compress=False):
        cwd = os.getcwd()
        os.chdir('/repo/examples')
        try:
            return bytes(mod.assemble(source, compress=compress))
        finally:
            os.chdir(cwd)

    for item in sources:
        label, source = item[0], item[1]
        compress = len(item) > 2
        global comparisons
        a = outcome(functools.partial(run, orig), (source, compress), {})
        b = outcome(functools.partial(run, new), (source, compress), {})
        comparisons += 1
        per_mnemonic['assemble'] = per_mnemonic.get('assemble', 0) + 1
        if a != b:
            differences.append(('assemble', label, a, b))
            if len(differences) <= 40:
                print('DIFF assemble', label, a, b)


def main():
    n_random = int(sys.argv[1]) if len(sys.argv) > 1 else 20000
    assert orig.INSTRUCTIONS.keys() == new.INSTRUCTIONS.keys()
    assert orig.REGISTERS == new.REGISTERS
    test_lookup_register()
    test_constraint_factories()
    for name in orig.INSTRUCTIONS:
        test_mnemonic(name, n_random)
    test_raw_encoders(n_random)
    test_assemble()
    print('mnemonics tested :', len(orig.INSTRUCTIONS))
    print('fewest comparisons for one mnemonic :', min((v, k) for k, v in per_mnemonic.items() if k in orig.INSTRUCTIONS))
    print('comparisons      :', comparisons)
    print('  of which raised:', raised)
    print('differences      :', len(differences))
    return 1 if differences else 0


if __name__ == '__main__':
    sys.exit(main())
