"""C05 - pseudo-instructions have exactly the effect the instruction reference documents."""
import ast
import re

from ..core import Report, Finding, AnalysisError
from ..facts import Facts
from ..pathwalk import show, is_const, C
from .. import layoutrules as LR, immsites as IS, oracle, docs, encprops
from ..wiring import parse_item_outcomes

LEVEL = 'other'


def module_value(facts, name):
    """Symbolic value of a module-level name bound exactly once (a named register, a shared `Arithmetic('0')`), else None."""
    node = facts.assign_nodes.get(name)
    if node is None:
        return None
    binds = 0
    for n in ast.walk(facts.tree):
        if isinstance(n, ast.Name) and n.id == name and isinstance(n.ctx, (ast.Store, ast.Del)):
            binds += 1
        if isinstance(n, ast.Global) and name in n.names:
            return None
    if binds != 1:
        return None
    from ..pathwalk import Walker, PathState
    try:
        return Walker(facts).sym(node.value, PathState())
    except AnalysisError:
        return None


def field_source(v, facts, item):
    """Normalise a constructor argument of an expansion into ('reg', n) | ('imm', n) | ('off', k) | k (operand index) |
    ('hi', src) | ('lo', src) | ('expr', k) | None."""
    if v[0] == 'attr' and len(v) == 3:
        # a field of a module-level record object (CALL_REGISTERS.link)
        base = v[1]
        if base[0] == 'name' and len(base) == 2:
            base = module_value(facts, base[1]) or base
        if base[0] == 'new' and base[1] in facts.classes:
            from ..pathwalk import Walker
            got = Walker(facts).field_of_new(base, v[2])
            if got is not None:
                return field_source(got, facts, item)
        return None
    if v[0] == 'name' and len(v) == 2:
        got = module_value(facts, v[1])
        if got is not None and got != v:
            return field_source(got, facts, item)
        return None
    if is_const(v):
        if isinstance(v[1], str):
            regs = facts.tables.get('REGISTERS', {})
            if v[1] in regs:
                return ('reg', regs[v[1]])
            return None
        if isinstance(v[1], bool):
            return ('flag', v[1])
        if isinstance(v[1], int):
            return ('imm', v[1])
        return None
    if v[0] == 'unpack' and v[1] == ('attr', item, 'args'):
        try:
            return int(v[2])
        except ValueError:
            if v[2].endswith(':'):
                return ('rest', int(v[2][:-1]))
            return None
    if v[0] == 'new' and v[1] == 'Arithmetic' and len(v[2]) == 1 and is_const(v[2][0]) and isinstance(v[2][0][1], str):
        try:
            return ('imm', int(v[2][0][1], 0))
        except ValueError:
            return None
    if v[0] == 'call' and v[1] == 'parse_immediate' and v[2]:
        lst = v[2][0]
        if lst[0] == 'list' and len(lst[1]) == 2 and lst[1][0] == C('%offset'):
            inner = field_source(lst[1][1], facts, item)
            if isinstance(inner, int):
                return ('off', inner)
        inner = field_source(lst, facts, item)
        if isinstance(inner, tuple) and inner[0] == 'rest':
            return ('expr', inner[1])
        return None
    if v[0] == 'new' and v[1] in ('Hi', 'Lo') and len(v[2]) == 1:
        inner = field_source(v[2][0], facts, item)
        return (v[1].lower(), inner)
    return None


def require_read(name, what, insts, keys):
    """A template comparison is a verdict only about fields that were read: a field that is passed to the constructor but whose
    value the template language does not cover (None) ends the check without verdict."""
    for cls, base, srcs, node, raw in insts:
        if base is None:
            raise AnalysisError('{} ({}): the mnemonic of the instruction built at line {} ({}) is not understood'.format(name, what, node.lineno, show(raw.get('name'))[:60]))
        for k in keys:
            if k in raw and srcs.get(k) is None:
                raise AnalysisError('{} ({}): field {} = {} of the instruction built at line {} is not understood'.format(name, what, k, show(raw[k])[:60], node.lineno))


def wrap_kind(path):
    """How the value the li size decision compares is derived from the evaluated operand: 'wrapped' (reduced to signed 32 bits:
    c_int32(v).value, sign_extend(v, 32)), 'raw' (the evaluation itself), 'unknown' (something else), None (no comparison of an
    evaluation on the path)."""
    is_eval = lambda t: t[0] == 'mcall' and t[2] == 'eval'
    kinds = set()
    for t, pol, _ in path.conds:
        for c in IS.find_all(t, lambda x: x[0] == 'cmp'):
            for side in (c[2], c[3]):
                if not IS.find_all(side, is_eval):
                    continue
                x = side
                while True:
                    if x[0] == 'res':
                        x = x[3]
                    elif x[0] == 'bin' and x[1] in ('+', '-', '>>') and is_const(x[3]) and isinstance(x[3][1], int):
                        x = x[2]          # (value + 2048) >> 12: arithmetic with constants on the same value
                    elif x[0] == 'bin' and x[1] == '+' and is_const(x[2]) and isinstance(x[2][1], int):
                        x = x[3]
                    else:
                        break
                if is_eval(x):
                    kinds.add('raw')
                elif x[0] == 'attr' and x[2] == 'value' and x[1][0] == 'call' and x[1][1] in ('c_int32', 'ctypes.c_int32') and len(x[1][2]) == 1:
                    kinds.add('wrapped')
                elif x[0] == 'call' and x[1] == 'sign_extend' and len(x[2]) == 2 and x[2][1] == C(32):
                    kinds.add('wrapped')
                elif x[0] == 'call' and x[1] == 'sign_extend' and len(x[2]) == 2 and is_const(x[2][1]) and isinstance(x[2][1][1], int):
                    kinds.add('raw')          # reduced to another width: understood, and not the 32-bit value
                elif x[0] == 'attr' and x[2] == 'value' and x[1][0] == 'call' and len(x[1][2]) == 1 and x[1][1] in (
                        'c_int8', 'c_int16', 'c_int64', 'c_uint8', 'c_uint16', 'c_uint32', 'c_uint64', 'c_longlong', 'c_short', 'c_byte'):
                    kinds.add('raw')          # another C integer type: not the signed 32-bit value
                else:
                    kinds.add('unknown')
    if not kinds:
        return None
    if 'raw' in kinds:
        return 'raw'
    return 'unknown' if 'unknown' in kinds else 'wrapped'


def templates(facts):
    """{pseudo name: [ (path, arity, [(class, base mnemonic, {field: source}, node)]) ]}"""
    pa = LR.pass_analysis(facts, 'transform_pseudo_instructions')
    item = pa.item
    out = {}
    for r in pa.rows:
        path = r['path']
        f = path.facts.get(('attr', item, 'name'))
        if not f or f['eq'] is None:
            continue
        name = f['eq'][1]
        arity = None
        for v in path.env.values():
            if isinstance(v, tuple) and v and v[0] == 'unpack' and v[1] == ('attr', item, 'args') and isinstance(v[3], int):
                arity = v[3] if v[3] > 0 else ('min', -v[3] - 1)
        if arity is None:
            # the unpacking may sit in a helper that builds the instruction: read it off the values that were built
            for val, node in r['app_values']:
                for u in IS.find_all(val, lambda t: t[0] == 'unpack' and t[1] == ('attr', item, 'args') and len(t) > 3 and isinstance(t[3], int)):
                    arity = u[3] if u[3] > 0 else ('min', -u[3] - 1)
        insts = []
        made = {}
        for v, n in r['acc'].new_values:
            made.setdefault(v, n)
        for val, node in r['app_values']:
            if val[0] != 'new':
                continue
            fields = IS.ctor_fields(facts, val)
            base = fields.get('name')
            srcs = {}
            for k, v in fields.items():
                if k in ('line', 'name'):
                    continue
                srcs[k] = field_source(v, facts, item)
            insts.append((val[1], base[1] if base and is_const(base) else None, srcs, made.get(val, node), fields))
        out.setdefault(name, []).append((path, arity, insts, r))
    return out, pa


def doc_template(exp_text, pseudo_ops, syntax):
    """Parse a documented expansion such as 'jalr x0, 0(rs)' into (base, {role: source})."""
    text = exp_text.replace('(', ' ( ').replace(')', ' ) ')
    toks = [t for t in re.split(r'[\s,]+', text.strip()) if t]
    base, args = toks[0], toks[1:]
    roles = syntax.get(base)
    if roles is None:
        return None
    if '(' in args:
        # A, B ( C )  ->  first operand, imm B, rs1 C
        a, b, _, c, _ = args
        vals = {}
        first_role = roles[0]
        vals[first_role] = a
        vals['rs1'] = c
        vals['imm'] = b
    else:
        if len(args) != len(roles):
            return None
        vals = dict(zip(roles, args))
    out = {}
    regs = {('x%d' % i): i for i in range(32)}
    for role, tok in vals.items():
        if tok in pseudo_ops:
            k = pseudo_ops.index(tok)
            out[role] = ('off', k) if tok == 'offset' else k
        elif tok in regs:
            out[role] = ('reg', regs[tok])
        elif tok == 'iorw':
            out[role] = ('imm', 0b1111)
        else:
            try:
                out[role] = ('imm', int(tok, 0))
            except ValueError:
                return None
    return base, out


def run(repo, tier):
    facts = Facts(repo.asm)
    rep = Report('C05', LEVEL,
                 'Path summaries of transform_pseudo_instructions give, per pseudo-instruction, the expansion template: classes, base '
                 'mnemonics and for every field a constant register / immediate or the index of the pseudo operand it comes from.  The '
                 'templates are compared three ways: with the standard table of the ISA manual (oracle), with the table parsed from '
                 'docs/instruction_reference.rst, and field by field by role.  li / call / tail: guard width vs. consumer, %hi/%lo '
                 'pairing with chained registers, link and scratch registers, full offset in the near form.  Given C01 (encodings) and '
                 'C07 (%hi/%lo) the architectural effect follows from the ISA.')
    rep.trusted_base = ['CPython ast', 'bbverif.pathwalk', 'ISA pseudo-instruction table (oracle)', 'C01 / C07 verdicts for the base instructions']
    rep.not_decided = ['execution of the emitted code against an independent ISA semantics (a runtime oracle)']
    tmpl, pa = templates(facts)
    doc_text = repo.text['docs/instruction_reference.rst']
    doc_ps = docs.pseudo_table(doc_text)
    syntax, _ = docs.instruction_syntax(doc_text)
    handled = set(tmpl)
    declared = facts.sets.get('PSEUDO_INSTRUCTIONS')
    if declared is None:
        raise AnalysisError('anchor vanished: PSEUDO_INSTRUCTIONS')
    want_names = set(oracle.PSEUDO) | set(oracle.PSEUDO_VARIABLE)
    fn_line = pa.fn.lineno
    rep.count('pseudo-instructions with a template', len(handled))
    for n in sorted(want_names | declared | handled | set(doc_ps)):
        ok = n in want_names and n in declared and n in handled and n in doc_ps
        rep.check(ok, 'R5.4.names', '{}: declared, handled, documented and standard'.format(n),
                  lambda n=n: Finding('R5.4.names', 'PSEUDO_INSTRUCTIONS', n,
                                      'pseudo-instruction {!r}: declared={} handled={} documented={} standard={}'.format(
                                          n, n in declared, n in handled, n in doc_ps, n in want_names), line=fn_line), nontrivial=False)
    # R5.1 fixed templates
    for name, (ops, (base, fields)) in sorted(oracle.PSEUDO.items()):
        if name not in tmpl:
            continue
        variants = tmpl[name]
        for path, arity, insts, row in variants:
            node = insts[0][3] if insts else pa.loop
            if len(insts) != 1:
                rep.fail(Finding('R5.1.template', 'transform_pseudo_instructions', node, '{} expands to {} instructions, the documented expansion has one'.format(name, len(insts)), line=node.lineno))
                continue
            cls, got_base, srcs, node, raw = insts[0]
            exp_arity = len(ops)
            if arity is None and exp_arity > 0:
                raise AnalysisError('{}: how many operands the expansion takes is not established (no unpacking of item.args is seen)'.format(name))
            ar_ok = (arity == exp_arity) or (arity is None and exp_arity == 0)
            rep.check(ar_ok, 'R5.1.arity', '{}: takes {} operand(s)'.format(name, exp_arity),
                      lambda name=name, arity=arity, node=node: Finding('R5.1.arity', 'transform_pseudo_instructions', node,
                                                                        '{} unpacks {} operands, the documented form has {}'.format(name, arity, len(ops)), line=node.lineno), nontrivial=False)
            want = dict(fields)
            got = {k: v for k, v in srcs.items() if k in want or v is not None}
            unread = sorted(k for k in want if k in raw and srcs.get(k) is None)
            if got_base is None or unread:
                # the expansion is built, but what is handed to it is not read (a value the template language does not cover)
                what = 'its mnemonic ({})'.format(show(raw.get('name'))[:60]) if got_base is None else \
                    'its field {} = {}'.format(unread[0], show(raw[unread[0]])[:60])
                raise AnalysisError('{}: the expansion is built at line {} but {} is not understood'.format(name, node.lineno, what))
            ok = got_base == base and got == want
            rep.check(ok, 'R5.1.template', '{} -> {} {}'.format(name, base, want),
                      lambda name=name, got_base=got_base, got=got, want=want, node=node: Finding(
                          'R5.1.template', 'transform_pseudo_instructions', node,
                          '{} expands to {} {} but the standard expansion is {} {}'.format(name, got_base, got, base, want), line=node.lineno))
            # documentation
            d_ops, d_exp = doc_ps.get(name, (None, None))
            if d_exp:
                dt = doc_template(d_exp, d_ops, syntax)
                if dt is None:
                    rep.note('documented expansion of {} could not be parsed: {}'.format(name, d_exp))
                else:
                    # roles of the doc are in the base instruction's documented operand names; map to class parameters by name
                    dbase, dfields = dt
                    okd = dbase == got_base and all(got.get(k) == v for k, v in dfields.items()) and len(dfields) == len(got)
                    rep.check(okd, 'R5.1.doc', '{}: implementation == documented expansion `{}`'.format(name, d_exp),
                              lambda name=name, d_exp=d_exp, got_base=got_base, got=got, node=node: Finding(
                                  'R5.1.doc', 'transform_pseudo_instructions', node,
                                  '{} is documented as `{}` but expands to {} {}'.format(name, d_exp, got_base, got), line=node.lineno))
    # R5.2 li
    li = tmpl.get('li', [])
    shapes = set()
    for path, arity, insts, row in li:
        node = insts[0][3] if insts else pa.loop
        wk = wrap_kind(path)
        if wk in (None, 'unknown'):
            rep.undecided('li: how the value of the size decision is derived from the operand is not understood on the path [{}]'.format(path.cond_text()[-120:]))
        wrapped = wk != 'raw'
        rep.check(wrapped, 'R5.2.li-wrap', 'li: size decision taken on the value reduced to signed 32 bits',
                  lambda node=node: Finding('R5.2.li-wrap', 'transform_pseudo_instructions', node,
                                            'the li size decision is not taken on the 32-bit two\'s-complement value (values >= 2^31 denote negatives)', line=node.lineno), nontrivial=False)
        if len(insts) in (1, 2):
            require_read('li', 'R5.2', insts, ('rd', 'rs1', 'imm'))
        if len(insts) == 1:
            cls, base, srcs, node, raw = insts[0]
            ok = base == 'addi' and srcs.get('rd') == 0 and srcs.get('rs1') == ('reg', 0) and srcs.get('imm') in (('lo', ('expr', 1)), ('expr', 1))
            shapes.add('short')
            rep.check(ok, 'R5.2.li-short', 'li short form: addi rd, x0, imm',
                      lambda node=node, srcs=srcs, base=base: Finding('R5.2.li-short', 'transform_pseudo_instructions', node,
                                                                      'single-instruction li is {} {} instead of addi rd, x0, imm'.format(base, srcs), line=node.lineno))
        elif len(insts) == 2:
            (c1, b1, s1, n1, _), (c2, b2, s2, n2, _) = insts
            ok = (b1 == 'lui' and s1.get('rd') == 0 and s1.get('imm') == ('hi', ('expr', 1))
                  and b2 == 'addi' and s2.get('rd') == 0 and s2.get('rs1') == 0 and s2.get('imm') == ('lo', ('expr', 1)))
            shapes.add('long')
            rep.check(ok, 'R5.2.li-long', 'li long form: lui rd, %hi(imm); addi rd, rd, %lo(imm)',
                      lambda n1=n1, s1=s1, s2=s2, b1=b1, b2=b2: Finding('R5.2.li-long', 'transform_pseudo_instructions', n1,
                                                                        'two-instruction li is {} {}; {} {} instead of lui rd, %hi(imm); addi rd, rd, %lo(imm)'.format(b1, s1, b2, s2), line=n1.lineno))
        else:
            rep.fail(Finding('R5.2.li-long', 'transform_pseudo_instructions', node, 'li expands to {} instructions'.format(len(insts)), line=node.lineno))
    rep.check(shapes == {'short', 'long'}, 'R5.2.li-forms', 'li has the single- and the two-instruction form',
              lambda: Finding('R5.2.li-forms', 'transform_pseudo_instructions', 'li', 'li does not have both documented forms: {}'.format(sorted(shapes)), line=fn_line))
    # R5.3 call / tail
    for name, spec in (('call', oracle.PSEUDO_VARIABLE['call']), ('tail', oracle.PSEUDO_VARIABLE['tail'])):
        shapes = set()
        for path, arity, insts, row in tmpl.get(name, []):
            node = insts[0][3] if insts else pa.loop
            if len(insts) in (1, 2):
                require_read(name, 'R5.3', insts, ('rd', 'rs1', 'imm', 'is_auipc_jump'))
            if len(insts) == 1:
                cls, base, srcs, node, raw = insts[0]
                shapes.add('near')
                ok = base == 'jal' and srcs.get('rd') == ('reg', spec['link']) and srcs.get('imm') == ('off', 0)
                rep.check(ok, 'R5.3.near', '{} near form: jal x{}, offset (full offset)'.format(name, spec['link']),
                          lambda name=name, base=base, srcs=srcs, node=node: Finding('R5.3.near', 'transform_pseudo_instructions', node,
                                                                                     'near {} is {} {} instead of jal x{}, %offset(target)'.format(name, base, srcs, spec['link']), line=node.lineno))
            elif len(insts) == 2:
                (c1, b1, s1, n1, _), (c2, b2, s2, n2, _) = insts
                shapes.add('far')
                ok = (b1 == 'auipc' and s1.get('rd') == ('reg', spec['scratch']) and s1.get('imm') == ('hi', ('off', 0))
                      and b2 == 'jalr' and s2.get('rd') == ('reg', spec['link']) and s2.get('rs1') == ('reg', spec['scratch'])
                      and s2.get('imm') == ('lo', ('off', 0)) and s2.get('is_auipc_jump') == ('flag', True))
                rep.check(ok, 'R5.3.far', '{} far form: auipc x{s}, %hi; jalr x{l}, x{s}, %lo'.format(name, s=spec['scratch'], l=spec['link']),
                          lambda name=name, b1=b1, s1=s1, b2=b2, s2=s2, n1=n1: Finding('R5.3.far', 'transform_pseudo_instructions', n1,
                                                                                     'far {} is {} {}; {} {}: expected auipc x{}, %hi(off); jalr x{}, x{}, %lo(off) marked as auipc jump'.format(
                                                                                         name, b1, s1, b2, s2, spec['scratch'], spec['link'], spec['scratch']), line=n1.lineno))
        rep.check(shapes == {'near', 'far'}, 'R5.3.forms', '{} has the near and the far form'.format(name),
                  lambda name=name, shapes=shapes: Finding('R5.3.forms', 'transform_pseudo_instructions', name, '{} does not have both documented forms: {}'.format(name, sorted(shapes)), line=fn_line))
    IS.check_lo_pairing(rep, facts, 'R5.3.lo-width', 'R5.3.guard-fits', 'R5.3.hi-lo-pair')
    IS.check_auipc(rep, facts, 'R5.3.auipc-adjust', 'R5.3.auipc-sibling')
    # R5.5 parse routing of names shared with real instructions
    arms, _ = parse_item_outcomes(facts)
    shared = sorted(set(declared) & set(facts.instructions()))
    tables = facts.instruction_tables()
    generic = False
    for key, test, outcomes in arms:
        if key == ('table', 'PSEUDO_INSTRUCTIONS'):
            generic = any(o.kind == 'return' and o.cls == 'PseudoInstruction' for o in outcomes)
    rep.check(generic, 'R5.5.route', 'names in PSEUDO_INSTRUCTIONS are parsed into PseudoInstruction',
              lambda: Finding('R5.5.route', 'parse_item', 'pseudo arm', 'parse_item has no arm that builds PseudoInstruction for PSEUDO_INSTRUCTIONS', line=facts.funcs['parse_item'].lineno))
    for n in shared:
        want_ops = len((oracle.PSEUDO.get(n) or (oracle.PSEUDO_VARIABLE[n]['operands'],))[0])
        tname = [t for t, d in tables.items() if n in d]
        found = False
        for key, test, outcomes in arms:
            if key[0] == 'table' and key[1] in tname:
                for o in outcomes:
                    if o.kind == 'return' and o.cls == 'PseudoInstruction' and o.path.exact_tokens == want_ops + 1:
                        found = True
        rep.check(found, 'R5.5.route', '`{}` with {} operand(s) is routed to the pseudo-instruction'.format(n, want_ops),
                  lambda n=n, want_ops=want_ops: Finding('R5.5.route', 'parse_item', n,
                                                         'the pseudo form of {} ({} operand(s)) is not routed to PseudoInstruction'.format(n, want_ops), line=facts.funcs['parse_item'].lineno))
    for name in sorted(tmpl)[:6]:
        p, a, insts, row = tmpl[name][0]
        rep.sample({'pseudo': name, 'operands': a, 'expansion': [(b, {k: str(v) for k, v in s.items()}) for c, b, s, n, raw in insts]})
    # R5.6: with -c the expansion is compressed afterwards: every compression rule that can fire on a base instruction an
    # expansion produces must keep its meaning (li sp, 16 -> addi sp, x0, 16 must not become c.addi16sp = sp += 16)
    from ..comprel import CompRel
    from .c04 import check_rules
    bases = set()
    for name, variants in tmpl.items():
        for path, arity, insts, row in variants:
            for cls, got_base, srcs, node, raw in insts:
                if got_base:
                    bases.add(got_base)
    rep.count('base mnemonics produced by expansions', len(bases))
    try:
        check_rules(rep, facts, CompRel(facts), 'R5.6.compressed-expansion', 'R5.6.compressed-accepted', tier, only_names=bases)
    except AnalysisError as e:
        if not rep.findings:
            raise
        rep.note('R5.6 not decided ({})'.format(str(e)[:160]))
    # R5.7: the expansion pass keeps its own books right - an expansion of a different size moves exactly the labels behind the
    # item and `position` follows the emitted bytes - which is what a label-dependent li / call / tail operand is computed from
    for compress in (False, True):
        for name, node, inc, out in LR.class_flow(facts, compress):
            if name == pa.fn.name:
                LR.check_conservation(rep, LR.pass_analysis(facts, name, frozenset(inc)), 'R5.7.layout', True)
    rep.floor('pseudo-instructions with a template', 27)
    rep.floor('base mnemonics produced by expansions', 5)
    return rep
