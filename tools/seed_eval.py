#!/venv/bin/python
"""Evaluate a seeded change living in a scratch worktree (developer tool, not a registered check).

  tools/seed_eval.py /tmp/seed/C03 C03 [--keep NAME]

1. extracts the tracked diff (patch.diff) and checks it is non-empty and touches no tests
2. confirms: test suite passes with the change; demo.py fails with the change and passes without it
3. runs every property check with --repo <worktree> and reports which ones fire
4. with --keep NAME stores patch.diff, demo.py and meta.json under /verif/seeded/NAME/
"""
import argparse
import json
import os
import shutil
import subprocess
import sys

VERIF = os.path.dirname(os.path.dirname(os.path.abspath(__file__)))
PY = '/venv/bin/python'
PROPS = ['C%02d' % i for i in range(1, 21)]


def sh(cmd, cwd=None, env=None):
    r = subprocess.run(cmd, shell=True, cwd=cwd, env=env, capture_output=True, text=True)
    return r.returncode, (r.stdout + r.stderr)


def main():
    ap = argparse.ArgumentParser()
    ap.add_argument('worktree')
    ap.add_argument('prop')
    ap.add_argument('--keep')
    ap.add_argument('--needs', default='')
    ap.add_argument('--summary', default='')
    args = ap.parse_args()
    wt = os.path.abspath(args.worktree)
    rc, diff = sh('git diff', cwd=wt)
    if not diff.strip():
        print('NO CHANGE in', wt)
        return 2
    touched = [l[6:] for l in diff.splitlines() if l.startswith('+++ b/')]
    print('touched:', touched)
    if any(t.startswith('tests/') for t in touched):
        print('REJECT: touches tests')
        return 2
    rc_t, out_t = sh('{} -m pytest -q -p no:cacheprovider 2>&1 | tail -2'.format(PY), cwd=wt)
    tests_ok = ' passed' in out_t and 'failed' not in out_t
    print('tests with change:', out_t.strip().splitlines()[-1] if out_t.strip() else '?')
    demo = os.path.join(wt, 'demo.py')
    if not os.path.exists(demo):
        print('REJECT: no demo.py')
        return 2
    rc_d1, out_d1 = sh('{} demo.py'.format(PY), cwd=wt)
    # revert / re-apply through a patch file (git stash is shared between worktrees of one repository)
    import tempfile
    with tempfile.NamedTemporaryFile('w', suffix='.diff', delete=False) as tf:
        tf.write(diff)
        pf = tf.name
    rc_r, out_r = sh('git apply -R {}'.format(pf), cwd=wt)
    if rc_r != 0:
        print('cannot revert patch:', out_r)
        os.unlink(pf)
        return 2
    try:
        rc_d0, out_d0 = sh('{} demo.py'.format(PY), cwd=wt)
    finally:
        rc_a, out_a = sh('git apply {}'.format(pf), cwd=wt)
        os.unlink(pf)
        if rc_a != 0:
            print('WARNING: could not re-apply patch:', out_a)
    print('demo with change: exit', rc_d1, '| without change: exit', rc_d0)
    confirmed = tests_ok and rc_d1 != 0 and rc_d0 == 0
    print('CONFIRMED' if confirmed else 'NOT CONFIRMED')
    fired = {}
    for p in PROPS:
        rc, out = sh('{} {}/bbverif/check.py {} --repo {} --no-evidence'.format(PY, VERIF, p, wt))
        fired[p] = rc
        if rc != 0:
            lines = [l for l in out.splitlines() if l.startswith('  finding') or l.startswith('ANALYSIS-ERROR')]
            print('  {} exit={} {}'.format(p, rc, (lines[0][:260] if lines else '')))
    caught = [p for p, rc in fired.items() if rc == 1]
    undecided = [p for p, rc in fired.items() if rc == 2]
    print('fired:', caught, 'undecided:', undecided, '| target', args.prop, 'CAUGHT' if args.prop in caught else ('UNDECIDED' if args.prop in undecided else 'MISSED'))
    if args.keep and confirmed:
        d = os.path.join(VERIF, 'seeded', args.keep)
        os.makedirs(d, exist_ok=True)
        with open(os.path.join(d, 'patch.diff'), 'w') as f:
            f.write(diff)
        shutil.copy(demo, os.path.join(d, 'demo.py'))
        meta = {
            'id': args.keep, 'breaks_property': args.prop, 'summary': args.summary, 'needs_to_manifest': args.needs,
            'touched_files': touched,
            'confirmed': {'tests_pass_with_change': tests_ok, 'demo_exit_with_change': rc_d1, 'demo_exit_without_change': rc_d0,
                          'commands': ['cd <worktree> && /venv/bin/python -m pytest -q -p no:cacheprovider', '/venv/bin/python demo.py (with change)',
                                       'git stash; /venv/bin/python demo.py; git stash pop']},
            'checks_fired': caught, 'checks_undecided': undecided,
            'verdict': 'caught' if args.prop in caught else ('undecided' if args.prop in undecided else 'missed'),
            'note': 'demo.py was written for the scratch worktree path; replace the sys.path / PYTHONPATH entry with the tree under test to re-run it',
        }
        with open(os.path.join(d, 'meta.json'), 'w') as f:
            json.dump(meta, f, indent=1)
        print('kept in', d)
    return 0


if __name__ == '__main__':
    sys.exit(main())
