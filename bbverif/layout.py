"""Size algebra, per-path byte accounting of the assembler passes, and the pipeline read from `assemble`.

Shared by C03 C08 C09 C20 (layout invariant L1-L5), C04/C05 (constructions), C15 (line provenance)."""
import ast

from .core import AnalysisError
from .astutil import unparse, dotted, fold, NotConstant
from .pathwalk import loop_paths, show, is_const, C, Walker, PathState
from . import oracle


# -- tiny linear forms over opaque symbols ---------------------------------------------------------------------
class LinS:
    def __init__(self, terms=None, const=0):
        self.terms = {k: v for k, v in (terms or {}).items() if v != 0}
        self.const = const

    def __add__(self, o):
        if isinstance(o, int):
            return LinS(self.terms, self.const + o)
        t = dict(self.terms)
        for k, v in o.terms.items():
            t[k] = t.get(k, 0) + v
        return LinS(t, self.const + o.const)

    def __sub__(self, o):
        if isinstance(o, int):
            return LinS(self.terms, self.const - o)
        return self + o.scale(-1)

    def scale(self, k):
        return LinS({a: b * k for a, b in self.terms.items()}, self.const * k)

    def is_zero(self):
        return not self.terms and self.const == 0

    def is_const(self):
        return not self.terms

    def __eq__(self, o):
        if isinstance(o, int):
            return self.is_const() and self.const == o
        return self.terms == o.terms and self.const == o.const

    def __repr__(self):
        parts = ['{}*{}'.format(v, show(k)) if v != 1 else show(k) for k, v in self.terms.items()]
        if self.const or not parts:
            parts.append(str(self.const))
        return ' + '.join(parts)


def struct_size(fmt):
    """Size of a struct format with explicit byte-order prefix (standard sizes), from the oracle table; None if unknown.  Without
    a prefix sizes and alignment are the platform's: a single code whose C type has the same width on every mainstream ABI
    (char, short, int, long long) is still known; `l` / `L` (4 or 8 bytes) and any multi-field native format (padding) are not."""
    if isinstance(fmt, str) and len(fmt) == 1 and fmt in 'bBhHiIqQ?c':
        return oracle.STRUCT_SIZES.get(fmt)
    if not isinstance(fmt, str) or not fmt or fmt[0] not in '<>=!':
        return None
    total = 0
    for ch in fmt[1:]:
        if ch not in oracle.STRUCT_SIZES:
            return None
        total += oracle.STRUCT_SIZES[ch]
    return total


class Sizes:
    """size() of item classes as functions of their fields, read from the class definitions."""

    def __init__(self, facts, incoming=None):
        self.facts = facts
        self.incoming = incoming        # set of concrete classes that can reach the pass (class-flow), or None
        self.table_domains = {}

    def size_method(self, cls):
        owner, m = self.facts.method(cls, 'size')
        if m is None:
            raise AnalysisError('class {} has no size()'.format(cls))
        return owner, m

    def size_of_class_value(self, cls, field, st, name_value=None):
        """LinS for size() of an object of class `cls`; `field(attr)` gives the symbolic value of self.attr."""
        owner, m = self.size_method(cls)
        body = [s for s in m.body if not (isinstance(s, ast.Expr) and isinstance(s.value, ast.Constant))]
        saved = dict(self.table_domains)
        try:
            return self._size_body(body, cls, field, st)
        except AnalysisError as e:
            self.table_domains = saved
            r = self.size_by_walk(cls, m, field, st)
            if r is None:
                raise e
            return r

    # -- size() by symbolic evaluation of the method (helpers, class constants, module tables followed) -----------------
    def walker(self):
        w = self.__dict__.get('_walker')
        if w is None:
            w = self._walker = Walker(self.facts, inline='all')
            w.returning_paths_only = True          # a size is what the item contributes when nothing fails
        return w

    def size_by_walk(self, cls, m, field, st):
        """size() of `cls` evaluated as an effect-free function of self: every helper it calls (module-level function, method
        of the class, class constant, module table) is followed; None when some path has an effect or is not understood."""
        SELF = ('sym', 'self:' + cls)
        s2 = PathState()
        for attr, _ in self.facts.full_attr_order(cls):
            val = field(attr)
            if is_const(val):
                s2.fact(('attr', SELF, attr))['eq'] = val
        s2.fact(SELF)['isa'].add(cls)
        v = self.walker().eval_fn(m, (SELF,), (), s2, {})
        if v is None:
            return None
        v = self.resolve(v, s2, {SELF: cls})

        def back(t):
            if t[0] == 'attr' and t[1] == SELF:
                return field(t[2])
            return t
        v = map_value(v, back)
        if contains_value(v, SELF):
            return None
        return self.lin_table(v, cls, st)

    def lin_table(self, v, cls, st):
        """lin() that knows the name-indexed size table: T[key] with T a constant dict of integers."""
        if v[0] == 'bin' and v[1] == '*':
            a, b = self.lin_table(v[2], cls, st), self.lin_table(v[3], cls, st)
            if a.is_const():
                return b.scale(a.const)
            if b.is_const():
                return a.scale(b.const)
            if len(a.terms) == 1 and a.const == 0 and list(a.terms.values()) == [1] and len(b.terms) == 1 and b.const == 0:
                (x,), (y,) = a.terms.keys(), b.terms.keys()
                (yk, yv), = b.terms.items()
                return LinS({('mul',) + tuple(sorted([x, y], key=repr)): yv})
            return LinS({('mul', repr(a), repr(b)): 1})
        if v[0] == 'call' and v[1] == 'struct.calcsize' and len(v[2]) == 1 and v[2][0][0] == 'sub' and not is_const(v[2][0][2]):
            # struct.calcsize(CODES[self.name]): the name decides the size - one walk per key of the table
            base = v[2][0][1]
            keys = None
            if base[0] == 'dict' and all(is_const(k) for k, _ in base[1]):
                keys = [k[1] for k, _ in base[1]]
            elif base[0] == 'name' and isinstance(self.facts.consts.get(base[1]), dict):
                keys = list(self.facts.consts[base[1]].keys())
            elif is_const(base) and isinstance(base[1], dict):
                keys = list(base[1].keys())
            if keys:
                self.table_domains[cls] = keys
                return LinS({('tablesize', cls, show(v[2][0][2])): 1})
        t = self.int_table_lookup(v)
        if t is not None:
            table, key = t
            if is_const(key):
                if key[1] not in table:
                    raise AnalysisError('size() of {}: key {!r} not in size table'.format(cls, key[1]))
                return LinS(const=table[key[1]])
            self.table_domains[cls] = list(table.keys())
            return LinS({('tablesize', cls, show(key)): 1})
        return self.lin(v, st)

    def int_table_lookup(self, v):
        """(dict of ints, key value) for `T[key]` over a constant table whose values are integers (after following what each
        entry's size is: an int, struct.calcsize of a constant format, a Struct's .size)."""
        if v[0] != 'sub':
            return None
        base, key = v[1], v[2]
        table = None
        if base[0] == 'name' and isinstance(self.facts.consts.get(base[1]), dict):
            table = self.facts.consts[base[1]]
        elif is_const(base) and isinstance(base[1], dict):
            table = base[1]
        elif base[0] == 'name' and base[1] in self.facts.assign_nodes and self.facts.assign_nodes[base[1]] is not None:
            # a module-level table computed by an expression (a helper over another table): evaluate that expression
            node = self.facts.assign_nodes[base[1]]
            val = getattr(node, 'value', None)
            if val is not None:
                try:
                    tv = self.resolve(self.walker().sym(val, PathState()), None)
                except AnalysisError:
                    return None
                if tv[0] in ('dict',) or (is_const(tv) and isinstance(tv[1], dict)):
                    return self.int_table_lookup(('sub', tv, key))
        elif base[0] == 'dict' and all(is_const(k) for k, _ in base[1]):
            table = {}
            for k, val in base[1]:
                lv = self.lin(val, None)
                if not lv.is_const():
                    return None
                table[k[1]] = lv.const
        if not isinstance(table, dict) or not table or not all(isinstance(x, int) and not isinstance(x, bool) for x in table.values()):
            return None
        return table, key

    def classes_of(self, recv, st, known):
        if recv in known:
            return [known[recv]]
        if recv[0] == 'new' and recv[1] in self.facts.classes:
            return [recv[1]]
        return self.candidate_classes(recv, st) or []

    def resolve(self, v, st, known=None):
        """Follow what a symbolic value still hides: calls of module-level functions and of methods on objects of known class
        (evaluated in place when effect-free), module constants, fields of freshly constructed objects."""
        known = known or {}
        facts = self.facts
        w = self.walker()
        depth = self.__dict__.setdefault('_resolve_depth', [0])

        def step(t):
            k = t[0]
            if k == 'name' and len(t) == 2 and isinstance(facts.consts.get(t[1]), (int, str, bytes)) and not isinstance(facts.consts.get(t[1]), bool):
                return C(facts.consts[t[1]])
            if depth[0] > 6:
                return t
            if k == 'call' and len(t) == 4 and t[1] in facts.funcs and not any(a[0] == 'star' for a in t[2]):
                depth[0] += 1
                try:
                    r = w.eval_fn(facts.funcs[t[1]], t[2], t[3], st or PathState(), {})
                    return self.resolve(r, st, known) if r is not None else t
                finally:
                    depth[0] -= 1
            if k == 'mcall' and len(t) >= 4 and t[2] not in ('size', '__class__') and isinstance(t[1], tuple):
                classes = self.classes_of(t[1], st, known) if st is not None or t[1] in known or t[1][0] == 'new' else []
                results = []
                for c in classes:
                    owner, m = facts.method(c, t[2])
                    if m is None:
                        return t
                    depth[0] += 1
                    try:
                        s2 = (st or PathState()).clone()
                        s2.fact(t[1])['isa'].add(c)
                        r = w.eval_fn(m, (t[1],) + tuple(t[3]), t[4] if len(t) > 4 else (), s2, {})
                    finally:
                        depth[0] -= 1
                    if r is None:
                        return t
                    k2 = dict(known)
                    if t[1][0] != 'new':
                        k2[t[1]] = c
                    results.append(self.resolve(r, st, k2))
                if results and all(r == results[0] for r in results[1:]):
                    return results[0]
                return t
            if k == 'attr' and t[1][0] == 'new' and t[1][1] in facts.classes:
                obj = t[1]
                params = [p_ for p_, _ in facts.init_params(obj[1])]
                bound = {}
                for i, a in enumerate(obj[2]):
                    if i < len(params):
                        bound[params[i]] = a
                for n, a in obj[3]:
                    bound[n] = a
                src = dict(facts.full_attr_order(obj[1])).get(t[2])
                if src in bound:
                    return bound[src]
                owner_c, const = class_constant(facts, obj[1], t[2])
                if const is not None:
                    return const
            if k == 'attr' and t[1] in known:
                owner_c, const = class_constant(facts, known[t[1]], t[2])
                if const is not None and t[2] not in dict(facts.full_attr_order(known[t[1]])):
                    return const
            return t
        return map_value(v, step)

    def _size_body(self, body, cls, field, st):
        local = {}
        for i, s in enumerate(body):
            if isinstance(s, ast.Return):
                return self._size_expr(s.value, cls, field, st, local)
            if isinstance(s, ast.Assign) and isinstance(s.targets[0], ast.Name):
                local[s.targets[0].id] = s.value
                continue
            if isinstance(s, ast.Try) and all(h.body and isinstance(h.body[-1], ast.Raise) for h in s.handlers) and not s.finalbody:
                # try: return <size> / except ...: raise ...   -> the size on the non-failing path
                return self._size_body(list(s.body) + list(s.orelse) + body[i + 1:], cls, field, st)
            if isinstance(s, ast.With):
                # a context manager around the computation (error conversion): the size on the non-failing path is the body's
                return self._size_body(list(s.body) + body[i + 1:], cls, field, st)
            if isinstance(s, ast.If):
                # if self.name in [...]: return A else: return B
                t = s.test
                if isinstance(t, ast.UnaryOp) and isinstance(t.op, ast.Not):
                    # if not <test>: A else: B   ==   if <test>: B else: A
                    flipped = ast.If(test=t.operand, body=s.orelse or [], orelse=s.body)
                    return self._size_body([flipped] + body[i + 1:], cls, field, st)
                if (isinstance(t, ast.Compare) and len(t.ops) == 1 and isinstance(t.ops[0], (ast.NotIn, ast.NotEq))
                        and unparse(t.left).startswith('self.')):
                    pos_op = ast.In() if isinstance(t.ops[0], ast.NotIn) else ast.Eq()
                    flipped = ast.If(test=ast.Compare(left=t.left, ops=[pos_op], comparators=t.comparators), body=s.orelse or [], orelse=s.body)
                    return self._size_body([flipped] + body[i + 1:], cls, field, st)
                if (isinstance(t, ast.Compare) and len(t.ops) == 1 and isinstance(t.ops[0], (ast.In, ast.Eq))
                        and unparse(t.left).startswith('self.')):
                    attr = unparse(t.left)[5:]
                    val = field(attr)
                    try:
                        rhs = fold(t.comparators[0], self.facts.consts)      # a literal, or a module-level constant collection
                    except NotConstant:
                        raise AnalysisError('size() of {}: test {} not foldable'.format(cls, unparse(t)))
                    if is_const(val):
                        hit = (val[1] in rhs) if isinstance(t.ops[0], ast.In) else (val[1] == rhs)
                        return self._size_body(list(s.body if hit else s.orelse) + body[i + 1:], cls, field, st)
                    # unknown name: symbolic
                    return LinS({('size', ('obj', cls, show(val))): 1})
            raise AnalysisError('size() of {}: statement outside the size algebra: {}'.format(cls, unparse(s).split('\n')[0]))
        raise AnalysisError('size() of {} has no return'.format(cls))

    def _size_expr(self, e, cls, field, st, local):
        try:
            v = fold(e)
            if isinstance(v, int):
                return LinS(const=v)
        except NotConstant:
            pass
        if isinstance(e, ast.Attribute) and isinstance(e.value, ast.Name) and e.value.id == 'self':
            if e.attr not in dict(self.facts.full_attr_order(cls)):
                # not an instance attribute: a class-level constant (possibly overridden by the subclass)
                owner_c, const = class_constant(self.facts, cls, e.attr)
                if const is None:
                    raise AnalysisError('size() of {}: self.{} is neither an attribute set by __init__ nor a class-level constant'.format(cls, e.attr))
                return self.lin(const, st)
            return self.lin(field(e.attr), st)
        if isinstance(e, ast.Call) and dotted(e.func) == 'len' and len(e.args) == 1:
            return self.lin(('call', 'len', (self._sym_self(e.args[0], field),), ()), st)
        if isinstance(e, ast.Call) and dotted(e.func) == 'struct.calcsize' and len(e.args) == 1:
            return self.lin(('call', 'struct.calcsize', (self._sym_self(e.args[0], field),), ()), st)
        if isinstance(e, ast.Subscript) and isinstance(e.value, ast.Name) and (e.value.id in local or isinstance(self.facts.consts.get(e.value.id), dict)):
            try:
                table = fold(local[e.value.id], self.facts.consts) if e.value.id in local else self.facts.consts[e.value.id]
            except NotConstant:
                raise AnalysisError('size() of {}: table not literal'.format(cls))
            if not isinstance(table, dict) or not all(isinstance(v, int) and not isinstance(v, bool) for v in table.values()):
                raise AnalysisError('size() of {}: size table is not a dict of integers'.format(cls))
            key = self._sym_self(e.slice, field)
            if is_const(key):
                if key[1] not in table:
                    raise AnalysisError('size() of {}: key {!r} not in size table'.format(cls, key[1]))
                return LinS(const=table[key[1]])
            self.table_domains[cls] = list(table.keys())
            return LinS({('tablesize', cls, show(key)): 1})
        if isinstance(e, ast.BinOp) and isinstance(e.op, ast.Mult):
            a = self._size_expr(e.left, cls, field, st, local)
            b = self._size_expr(e.right, cls, field, st, local)
            if a.is_const():
                return b.scale(a.const)
            if b.is_const():
                return a.scale(b.const)
            if len(a.terms) == 1 and a.const == 0 and list(a.terms.values()) == [1] and len(b.terms) == 1 and b.const == 0:
                # product of two atoms: keep a canonical commutative symbol
                (x,), (y,) = a.terms.keys(), b.terms.keys()
                (yk, yv), = b.terms.items()
                return LinS({('mul',) + tuple(sorted([x, y], key=repr)): yv})
            return LinS({('mul', repr(a), repr(b)): 1})
        raise AnalysisError('size() of {}: expression outside the size algebra: {}'.format(cls, unparse(e)))

    def _sym_self(self, e, field):
        """symbolic value of an expression over self.<attr> inside size()."""
        if isinstance(e, ast.Attribute) and isinstance(e.value, ast.Name) and e.value.id == 'self':
            return field(e.attr)
        if isinstance(e, ast.Call) and isinstance(e.func, ast.Attribute):
            return ('mcall', self._sym_self(e.func.value, field), e.func.attr,
                    tuple(self._sym_self(a, field) for a in e.args), ())
        if isinstance(e, ast.Constant):
            return C(e.value)
        raise AnalysisError('size(): expression outside the size algebra: {}'.format(unparse(e)))

    # -- symbolic value -> LinS --------------------------------------------------------------------------------
    def lin(self, v, st):
        if is_const(v):
            if isinstance(v[1], bool) or not isinstance(v[1], int):
                raise AnalysisError('non-integer constant in size algebra: {!r}'.format(v[1]))
            return LinS(const=v[1])
        f = st.facts.get(v) if st is not None else None
        if f and f['eq'] is not None and isinstance(f['eq'][1], int):
            return LinS(const=f['eq'][1])
        if st is not None and v[0] in ('mcall', 'call', 'attr', 'res', 'sub', 'lv'):
            # `if padding:` / `if not padding:` - a value used as a number that the path found falsy is 0
            for t, pol, _ in st.conds:
                if (t == v and not pol) or (t == ('un', 'not', v) and pol):
                    return LinS(const=0)
        k = v[0]
        if k == 'bin' and v[1] in ('+', '-'):
            a, b = self.lin(v[2], st), self.lin(v[3], st)
            return a + b if v[1] == '+' else a - b
        if k == 'bin' and v[1] == '*':
            a, b = self.lin(v[2], st), self.lin(v[3], st)
            if a.is_const():
                return b.scale(a.const)
            if b.is_const():
                return a.scale(b.const)
        if k == 'un' and v[1] == '-':
            return self.lin(v[2], st).scale(-1)
        if k == 'un' and v[1] == '+':
            return self.lin(v[2], st)
        if k == 'mcall' and v[2] == 'size' and not v[3]:
            return self.size(v[1], st)
        if k == 'call' and v[1] == 'len' and len(v[2]) == 1:
            x = v[2][0]
            if is_const(x) and isinstance(x[1], (bytes, str)):
                return LinS(const=len(x[1]))
            if x[0] == 'bin' and x[1] == '*':
                for a, b in ((x[2], x[3]), (x[3], x[2])):
                    if is_const(a) and isinstance(a[1], (bytes, str)):
                        return self.lin(b, st).scale(len(a[1]))
            if x[0] == 'call' and x[1] == 'struct.pack' and x[2]:
                return self.lin(('call', 'struct.calcsize', (x[2][0],), ()), st)
            if x[0] == 'mcall' and x[2] == 'pack' and x[1][0] == 'name' and len(x[1]) == 2:
                # PACKER.pack(..) with PACKER = struct.Struct(<constant format>) at module level
                node = self.facts.assign_nodes.get(x[1][1]) if hasattr(self.facts, 'assign_nodes') else None
                val = getattr(node, 'value', None)
                if isinstance(val, ast.Call) and dotted(val.func) in ('struct.Struct', 'Struct') and len(val.args) == 1 and not val.keywords:
                    try:
                        fmt = fold(val.args[0], self.facts.consts)
                    except NotConstant:
                        fmt = None
                    n = struct_size(fmt) if isinstance(fmt, str) else None
                    if n is not None:
                        return LinS(const=n)
            if x[0] == 'call' and x[1] in ('bytes', 'bytearray') and len(x[2]) == 1 and not x[3] and not is_const(x[2][0]):
                # bytes(n) with n a number is n zero bytes; bytes(b) with b bytes-like is a copy of b
                arg = self.resolve(x[2][0], st)
                if is_number(arg):
                    return self.lin(arg, st)
                if is_number(arg) is None:
                    return LinS({v: 1})
            if x[0] == 'call' and x[1] == 'bytes' and len(x[2]) == 1 and not (is_const(x[2][0]) and isinstance(x[2][0][1], int)):
                return self.lin(('call', 'len', (x[2][0],), ()), st)
            if x[0] == 'call' and x[1] in ('bytearray', 'bytes', 'list') and not x[2]:
                return LinS(const=0)
            if x[0] == 'call' and x[1] in ('bytearray', 'bytes') and len(x[2]) == 1 and is_const(x[2][0]) and isinstance(x[2][0][1], int) \
                    and not isinstance(x[2][0][1], bool) and x[2][0][1] >= 0:
                return LinS(const=x[2][0][1])          # bytes(n): n zero bytes
            if x[0] == 'bin' and x[1] == '+':
                return self.lin(('call', 'len', (x[2],), ()), st) + self.lin(('call', 'len', (x[3],), ()), st)
            if x[0] == 'accum':
                init, it, elem, meth = x[1], x[2], x[3], x[4]
                n_iter = self.lin(('call', 'len', (it,), ()), st)
                per = self.lin(('call', 'len', (elem,), ()), st) if meth == 'extend' else LinS(const=1)
                base = self.lin(('call', 'len', (init,), ()), st)
                if per.is_const():
                    return base + n_iter.scale(per.const)
                if n_iter.is_const():
                    return base + per.scale(n_iter.const)
            if x[0] == 'comp' and not x[5]:
                return self.lin(('call', 'len', (x[4],), ()), st)
            if x[0] == 'ifexp':
                a, b = self.lin(('call', 'len', (x[2],), ()), st), self.lin(('call', 'len', (x[3],), ()), st)
                if a == b:
                    return a
            if x[0] == 'mcall' and x[2] == 'join' and is_const(x[1]) and x[1][1] in (b'', '') and len(x[3]) == 1:
                # len(b''.join(parts)) = sum of the parts' lengths
                parts = x[3][0]
                if parts[0] in ('list', 'tuple'):
                    total = LinS()
                    for e in parts[1]:
                        total = total + self.lin(('call', 'len', (e,), ()), st)
                    return total
                if parts[0] == 'comp' and not parts[5]:
                    per = self.lin(('call', 'len', (parts[2],), ()), st)
                    if per.is_const():
                        return self.lin(('call', 'len', (parts[4],), ()), st).scale(per.const)
                if parts[0] == 'accum' and parts[4] == 'append':
                    # chunks appended one per iteration, joined afterwards: iterations x the length of a chunk
                    init, it, elem = parts[1], parts[2], parts[3]
                    per = self.lin(('call', 'len', (elem,), ()), st)
                    base = self.lin(('call', 'len', (('mcall', x[1], 'join', (init,), ()),), ()), st) if init[0] in ('list', 'tuple') and init[1] else LinS()
                    empty_init = (init[0] in ('list', 'tuple') and not init[1]) or (init[0] == 'call' and init[1] == 'list' and not init[2])
                    if per.is_const() and (empty_init or init[0] in ('list', 'tuple')):
                        return base + self.lin(('call', 'len', (it,), ()), st).scale(per.const)
            # assert len(x) == y on this path (each relation is used once per chain: `assert len(a) == len(b)` must not ping-pong)
            if st is not None:
                stack = self.__dict__.setdefault('_assert_stack', [])
                for ev in st.events:
                    if ev[0] == 'assert' and ev[1][0] == 'cmp' and ev[1][1] == '==' and id(ev) not in stack:
                        a, b = ev[1][2], ev[1][3]
                        other = b if a == v else (a if b == v else None)
                        if other is not None:
                            stack.append(id(ev))
                            try:
                                return self.lin(other, st)
                            finally:
                                stack.pop()
        if k == 'call' and v[1] == 'struct.calcsize' and len(v[2]) == 1 and is_const(v[2][0]):
            n = struct_size(v[2][0][1])
            if n is not None:
                return LinS(const=n)
        if k == 'call' and v[1] == 'struct.calcsize' and len(v[2]) == 1 and v[2][0][0] == 'ifexp':
            a = self.lin(('call', 'struct.calcsize', (v[2][0][2],), ()), st)
            b = self.lin(('call', 'struct.calcsize', (v[2][0][3],), ()), st)
            if a == b:
                return a
        r = self.resolve(v, st)
        if r != v:
            return self.lin(r, st)
        return LinS({v: 1})

    def size(self, obj, st):
        """LinS of obj.size() for a symbolic object; a size() that is not understood becomes an opaque unknown (whatever compares
        it ends without verdict) instead of aborting the analysis of the pass."""
        try:
            return self._size(obj, st)
        except AnalysisError as e:
            return LinS({('opaque', 'size(): ' + str(e)[:120]): 1})

    def _size(self, obj, st):
        if obj[0] in ('call', 'mcall') or (obj[0] == 'new' and any(isinstance(a, tuple) and a and a[0] in ('call', 'mcall', 'name') for a in obj[2])):
            r = self.resolve(obj, st)
            if r != obj:
                return self.size(r, st)
        if obj[0] == 'new':
            cls = obj[1]
            params = [p for p, _ in self.facts.init_params(cls)]
            bound = {}
            for i, a in enumerate(obj[2]):
                if i < len(params):
                    bound[params[i]] = a
            for n, a in obj[3]:
                bound[n] = a
            attr_src = {attr: src for attr, src in self.facts.full_attr_order(cls)}

            def field(attr):
                src = attr_src.get(attr)
                if src in bound:
                    return bound[src]
                return ('attr', obj, attr)
            return self.size_of_class_value(cls, field, st)
        if obj[0] == 'mcall' and obj[2] == '__class__':
            # positional rebuild of the same class: size() unchanged provided it does not read the rebuilt field
            return self.size(obj[1], st)
        # symbolic object with class facts
        f = st.facts.get(obj) if st is not None else None
        classes = self.candidate_classes(obj, st)
        if classes:
            results = []
            for cls in classes:
                def field(attr, obj=obj):
                    v = ('attr', obj, attr)
                    ff = st.facts.get(v)
                    if ff and ff['eq'] is not None:
                        return ff['eq']
                    return v
                results.append(self.size_of_class_value(cls, field, st))
            if all(r == results[0] for r in results[1:]):
                return results[0]
        return LinS({('size', obj): 1})

    def candidate_classes(self, obj, st):
        """Concrete item classes the symbolic object may be, from isinstance facts (None = unknown)."""
        f = st.facts.get(obj) if st is not None else None
        if not f or not f['isa']:
            return None
        concrete = [c for c in self.facts.subclasses('Item') if self._concrete(c)]
        out = []
        for c in concrete:
            if self.incoming is not None and c not in self.incoming:
                continue
            if all(self.facts.is_subclass(c, k) for k in f['isa']) and not any(self.facts.is_subclass(c, k) for k in f['nota']):
                out.append(c)
        return out

    def concrete_item_classes(self):
        return [c for c in self.facts.subclasses('Item') if self._concrete(c)]

    def _concrete(self, c):
        ci = self.facts.classes[c]
        for m in ci.methods.values():
            for d in m.decorator_list:
                if 'abstractmethod' in unparse(d):
                    return False
        # classes that inherit an abstract args() without defining it are abstract as well (Instruction, CompressedInstruction)
        if self.facts.is_subclass(c, 'Instruction'):
            owner, m = self.facts.method(c, 'args')
            if m is None or any('abstractmethod' in unparse(d) for d in m.decorator_list):
                # PseudoInstruction overrides args as attribute; treat classes with own __init__ as concrete
                return '__init__' in ci.methods
        if c == 'Item':
            return False
        return True


def is_number(v):
    """True: the symbolic value is an integer (built by arithmetic from integer constants, lengths, sizes); False: it is a
    bytes / str / sequence value; None: cannot tell."""
    if is_const(v):
        if isinstance(v[1], bool):
            return None
        return True if isinstance(v[1], int) else (False if isinstance(v[1], (bytes, str, tuple, list)) else None)
    k = v[0]
    if k == 'bin' and v[1] == '%':
        a = is_number(v[2])
        return None if a is None else a          # text % args is formatting
    if k == 'bin' and v[1] in ('-', '//', '<<', '>>', '**'):
        return True          # not defined on bytes / str
    if k == 'bin' and v[1] in ('&', '|', '^'):
        return None          # also defined on sets
    if k == 'bin' and v[1] == '+':
        a, b = is_number(v[2]), is_number(v[3])
        return True if (a is True or b is True) else (False if (a is False or b is False) else None)
    if k == 'bin' and v[1] == '*':
        a, b = is_number(v[2]), is_number(v[3])
        return False if (a is False or b is False) else (True if (a and b) else None)
    if k == 'un' and v[1] in ('-', '+', '~'):
        return True
    if k == 'call' and v[1] in ('len', 'int', 'abs', 'struct.calcsize', 'ord', 'sum', 'round'):
        return True
    if k == 'call' and v[1] in ('bytes', 'bytearray', 'str', 'list', 'tuple', 'struct.pack'):
        return False
    if k == 'mcall' and v[2] in ('size', 'bit_length', 'count', 'index', 'find'):
        return True
    if k == 'mcall' and v[2] in ('encode', 'decode', 'join', 'to_bytes', 'pack', 'strip', 'lower', 'upper', 'format'):
        return False
    if k == 'ifexp':
        a, b = is_number(v[2]), is_number(v[3])
        return a if a == b else None
    if k in ('list', 'tuple', 'dict', 'comp', 'accum'):
        return False
    return None


def map_value(v, f):
    """Bottom-up rewriting of a symbolic value (nested tuples)."""
    if not isinstance(v, tuple):
        return v
    new = tuple(map_value(x, f) if isinstance(x, tuple) else x for x in v)
    if new and isinstance(new[0], str):
        return f(new)
    return new


def contains_value(v, x):
    if v == x:
        return True
    return isinstance(v, tuple) and any(contains_value(y, x) for y in v if isinstance(y, tuple))


def structured_const(val):
    """A folded Python constant as a symbolic value (containers become 'dict' / 'tuple' / 'list' values: hashable)."""
    if isinstance(val, dict):
        return ('dict', tuple((structured_const(k), structured_const(v)) for k, v in val.items()))
    if isinstance(val, (tuple, list)):
        return ('tuple' if isinstance(val, tuple) else 'list', tuple(structured_const(x) for x in val))
    if isinstance(val, (set, frozenset)):
        return ('set', tuple(structured_const(x) for x in sorted(val, key=repr)))
    return C(val)


def class_constant(facts, cls, attr):
    """(owner class, constant value) of a class-level constant `attr = <literal>` visible on instances of cls."""
    for c in facts.mro(cls):
        node = facts.classes[c].node if hasattr(facts.classes[c], 'node') else None
        if node is None:
            continue
        for st in node.body:
            if isinstance(st, ast.Assign) and len(st.targets) == 1 and isinstance(st.targets[0], ast.Name) and st.targets[0].id == attr:
                try:
                    val = fold(st.value, facts.consts)
                except NotConstant:
                    return c, None
                if isinstance(val, (int, str, bytes)):
                    return c, C(val)
                if isinstance(val, (dict, tuple, list)):
                    return c, structured_const(val)
                return c, None
    return None, None


# -- per-path accounting -----------------------------------------------------------------------------------------
class PathAccount:
    def __init__(self, path):
        self.path = path
        self.appended = []        # (list name, value, node)
        self.advances = []        # (LinS, node, index in events)
        self.label_updates = []   # dict(delta, op, rhs, iter, node, index, shape_ok)
        self.label_sets = []      # (key, value, node)
        self.label_other = []     # nodes that write the label table in a way the accounting does not follow
        self.evals = []           # (expr value, args, node)
        self.raises = []
        self.other_list_ops = []  # (list, method, node)
        self.new_values = []
        self.label_writes = []    # nodes of writes into the label table that are not `labels.update(..)` (labels[k] = v, labels[k] -= d, ...)


def _subst(v, old, new):
    if v == old:
        return new
    if isinstance(v, tuple):
        return tuple(_subst(x, old, new) if isinstance(x, tuple) else x for x in v)
    return v


def _comp_parts(arg):
    """(key, value, names, iterable, filters) of a comprehension that spells out a mapping: a dict comprehension, a list /
    generator comprehension of (key, value) pairs, or dict(<one of those>)."""
    if arg[0] == 'dictcomp':
        return arg[1], arg[2], arg[3], arg[4], arg[5]
    if arg[0] == 'comp' and arg[1] in ('ListComp', 'GeneratorExp') and arg[2][0] == 'tuple' and len(arg[2][1]) == 2:
        return arg[2][1][0], arg[2][1][1], arg[3], arg[4], arg[5]
    if arg[0] == 'call' and arg[1] == 'dict' and len(arg[2]) == 1 and not arg[3]:
        return _comp_parts(arg[2][0])
    return None


def parse_label_update(arg):
    """labels.update({k: v - D for k, v in labels.items() if v > P}) -> dict or None.  Equivalent spellings are brought to that
    form: a comprehension of (k, v - D) pairs, iteration over the keys with labels[k] as the value, list(...) around the
    iterable, the filter folded into the value (`v - D if v > P else v`), `not v <= P`, `v >= P + 1` (offsets are integers)."""
    parts = _comp_parts(arg)
    if parts is None:
        return None
    key, val, names, it, ifs = parts
    while it[0] == 'call' and it[1] in ('list', 'tuple', 'iter') and len(it[2]) == 1 and not it[3]:
        it = it[2][0]
    nm = names.split(',')
    if len(nm) == 1 and nm[0]:
        # for k in labels / labels.keys(): the value is labels[k]
        base = it[1] if (it[0] == 'mcall' and it[2] == 'keys' and not it[3]) else it
        if base[0] != 'name':
            return None
        kvar, vvar = ('var', nm[0]), ('var', nm[0] + '.value')
        cell = ('sub', base, kvar)
        val = _subst(val, cell, vvar)
        ifs = tuple(_subst(c, cell, vvar) for c in ifs)
        if any(contains_value(x, base) for x in (val,) + tuple(ifs)):
            return None
        it = ('mcall', base, 'items', (), ())
    elif len(nm) == 2:
        kvar, vvar = ('var', nm[0]), ('var', nm[1])
    else:
        return None
    out = {'key_ok': key == kvar, 'iter': it}
    if val[0] == 'ifexp' and not ifs:
        # {k: (v - D if v > P else v) ...}: the unchanged arm is the filter
        if val[3] == vvar:
            ifs, val = (val[1],), val[2]
        elif val[2] == vvar:
            ifs, val = (('un', 'not', val[1]),), val[3]
    out['ifs'] = ifs
    if val[0] == 'bin' and val[1] == '-' and val[2] == vvar:
        out['delta'] = val[3]
        out['sign'] = 1
    elif val[0] == 'bin' and val[1] == '+' and val[2] == vvar:
        out['delta'] = val[3]
        out['sign'] = -1
    elif val[0] == 'bin' and val[1] == '+' and val[3] == vvar:
        out['delta'] = val[2]
        out['sign'] = -1
    else:
        return None
    if contains_value(out['delta'], vvar) or contains_value(out['delta'], kvar):
        return None
    if len(ifs) == 1:
        test, neg = ifs[0], False
        while test[0] == 'un' and test[1] == 'not':
            test, neg = test[2], not neg
        if test[0] != 'cmp':
            return None
        op, a, b = test[1], test[2], test[3]
        if neg:
            op = {'<': '>=', '>': '<=', '<=': '>', '>=': '<', '==': '!=', '!=': '=='}.get(op)
            if op is None:
                return None
        if a == vvar and not contains_value(b, vvar):
            out['op'], out['rhs'] = op, b
        elif b == vvar and not contains_value(a, vvar):
            flip = {'<': '>', '>': '<', '<=': '>=', '>=': '<='}
            out['op'], out['rhs'] = flip.get(op, op), a
        else:
            return None
        rhs = out['rhs']
        if out['op'] == '>=' and rhs[0] == 'bin' and rhs[1] == '+' and (rhs[3] == C(1) or rhs[2] == C(1)):
            # v >= P + 1  is  v > P  over the integers
            out['op'], out['rhs'] = '>', (rhs[2] if rhs[3] == C(1) else rhs[3])
    elif not ifs:
        out['op'], out['rhs'] = None, None
    else:
        return None
    return out


def account(path, result_list, labels_name='labels'):
    acc = PathAccount(path)
    pending = {}   # local name of a dictcomp assigned then passed to update
    for i, ev in enumerate(path.events):
        k = ev[0]
        if k == 'mcall':
            recv, meth, args, kwargs, node = ev[1], ev[2], ev[3], ev[4], ev[5]
            if meth == 'extend' and recv[0] in ('lv', 'name', 'list') and args and args[0][0] in ('list', 'tuple') \
                    and not any(x[0] == 'star' for x in args[0][1]):
                # RESULT.extend([a, b])  is  RESULT.append(a); RESULT.append(b)
                for x in args[0][1]:
                    acc.appended.append((recv, x, node, 'append'))
            elif meth in ('append', 'extend') and recv[0] in ('lv', 'name', 'list'):
                acc.appended.append((recv, args[0] if args else None, node, meth))
            elif meth == 'update' and recv == ('name', labels_name) and len(args) == 1 and not kwargs and args[0][0] == 'dict' \
                    and args[0][1] and all(kk != ('opaque', '**') for kk, _ in args[0][1]):
                # labels.update({name: offset}) with the entries written out: the same as labels[name] = offset for each of them
                for kk, vv in args[0][1]:
                    acc.label_sets.append((kk, vv, node, i))
            elif meth == 'update' and recv == ('name', labels_name):
                acc.label_updates.append({'arg': args[0] if args else None, 'node': node, 'index': i,
                                          'parsed': parse_label_update(args[0]) if args and not kwargs else None})
            elif recv == ('name', labels_name) and meth in ('pop', 'popitem', 'clear', 'setdefault', '__setitem__', '__delitem__'):
                acc.label_other.append(node)
            elif meth in ('insert', 'sort', 'reverse', 'pop', 'remove', 'clear') and recv[0] in ('lv', 'name'):
                acc.other_list_ops.append((recv, meth, node))
        elif k == 'aug' and ev[1] == result_list:
            # new_items += [a, b] is new_items.extend([a, b])
            if ev[2] == '+':
                acc.appended.append((('lv', result_list), ev[3], ev[4], 'extend'))
            else:
                acc.other_list_ops.append((('lv', result_list), 'aug ' + ev[2], ev[4]))
        elif k == 'aug':
            if ev[2] == '+' and isinstance(ev[3], tuple) and ev[3] and ev[3][0] in ('list', 'tuple') and ev[1] == result_list \
                    and not any(x[0] == 'star' for x in ev[3][1]):
                # RESULT += [a, b]  is  RESULT.append(a); RESULT.append(b)
                for x in ev[3][1]:
                    acc.appended.append((('lv', ev[1]), x, ev[4], 'append'))
                continue
            acc.advances.append((ev[1], ev[2], ev[3], ev[4], i))
        elif k == 'setitem':
            if ev[1] == ('name', labels_name):
                acc.label_sets.append((ev[2], ev[3], ev[4], i))
                acc.label_writes.append(ev[4])
        elif k == 'augstore':
            if isinstance(ev[1], tuple) and ev[1] and ev[1][0] == 'sub' and ev[1][1] == ('name', labels_name):
                acc.label_writes.append(ev[4])
                acc.label_other.append(ev[4])
        elif k == 'delete':
            if any(t[0] == 'sub' and t[1] == ('name', labels_name) for t in ev[1] if isinstance(t, tuple) and t):
                acc.label_other.append(ev[2])
        elif k == 'value':
            v = ev[1]
            if v[0] == 'mcall' and v[2] == 'eval':
                acc.evals.append((v, ev[2], i))
            if v[0] == 'new':
                acc.new_values.append((v, ev[2]))
        elif k == 'raise':
            acc.raises.append((ev[1], ev[2]))
    return acc


_pipeline_cache = {}


def pass_pipeline(facts):
    """passorder.Pipeline of `assemble` (cached per Facts)."""
    from .passorder import Pipeline
    key = id(facts)
    if key not in _pipeline_cache:
        _pipeline_cache[key] = (facts, Pipeline(facts))
    return _pipeline_cache[key][1]


OBSERVER_CALLS = {'len', 'enumerate', 'iter', 'list', 'tuple', 'sorted', 'reversed', 'zip', 'str', 'repr', 'format', 'print', 'isinstance', 'type', 'sum', 'min', 'max',
                  'any', 'all', 'bool', 'int', 'id', 'hash', 'getattr', 'hasattr'}
OBSERVER_MODULES = ('log', 'logging', 'logger', 'os.path', 'sys.stderr', 'sys.stdout')


def is_observer(facts, fname, seen=()):
    """Does the module-level function only look at the objects it is given?  No store through an attribute or a subscript, no
    mutating method on a parameter or on something reached from one, no global / nonlocal, and every call is a builtin that
    does not change its arguments, a logging call, a string method, or another observer.  Decided syntactically (True only
    when every statement is recognised)."""
    fn = facts.funcs.get(fname)
    if fn is None or fname in seen or fn.decorator_list:
        return False
    mutators = {'append', 'extend', 'insert', 'pop', 'remove', 'clear', 'sort', 'reverse', 'update', 'setdefault', 'popitem', 'add', 'discard',
                '__setitem__', '__delitem__', '__setattr__', 'write', 'writelines'}
    for n in ast.walk(fn):
        if isinstance(n, (ast.Global, ast.Nonlocal, ast.Delete, ast.Yield, ast.YieldFrom, ast.Await, ast.Lambda, ast.ClassDef)):
            return False
        if isinstance(n, ast.FunctionDef) and n is not fn:
            return False
        if isinstance(n, (ast.Attribute, ast.Subscript)) and isinstance(n.ctx, (ast.Store, ast.Del)):
            return False
        if isinstance(n, ast.Call):
            d = dotted(n.func)
            if isinstance(n.func, ast.Name):
                if n.func.id in OBSERVER_CALLS:
                    continue
                if n.func.id in facts.funcs and is_observer(facts, n.func.id, tuple(seen) + (fname,)):
                    continue
                return False
            if isinstance(n.func, ast.Attribute):
                if n.func.attr in mutators:
                    return False
                if d and any(d == m or d.startswith(m + '.') for m in OBSERVER_MODULES):
                    continue
                if isinstance(n.func.value, ast.Constant) and isinstance(n.func.value.value, str):
                    continue          # 'text'.format(...) / .join(...)
                if n.func.attr in ('format', 'join', 'items', 'keys', 'values', 'get', 'lower', 'upper', 'strip', 'startswith', 'endswith', 'size', 'hex', 'count', 'index'):
                    continue
                return False
            return False
    return True


def item_passes(facts, calls):
    """[(pass name, PassCall, the item-list argument)] for the recorded calls of one evaluated path that receive the running item
    list.  A pass reached through thin module-level wrappers (`def resolve_strings(items): return convert_items(..., items, ...)`)
    is named after the outermost wrapper."""
    out = []
    # one invocation of a helper that makes several item passes is a phase of the pipeline, not a wrapper of one pass
    per_site = {}
    for c in calls:
        if not c.mapped and c.via and any(isinstance(a, tuple) and a and a[0] == 'items' for a in c.args):
            site = (c.via[0], c.via_sites[0] if getattr(c, 'via_sites', ()) else None)
            per_site[site] = per_site.get(site, 0) + 1
    for c in calls:
        if c.mapped:
            continue
        its = [a for a in c.args if isinstance(a, tuple) and a and a[0] == 'items']
        if not its:
            continue
        name = c.via[0] if c.via else c.name
        if c.via and per_site.get((c.via[0], c.via_sites[0] if getattr(c, 'via_sites', ()) else None), 0) > 1:
            name = c.name
        if name not in facts.funcs:
            continue
        if getattr(c, 'discarded', False) and is_observer(facts, c.name):
            continue        # a helper that only looks at the items (logging) and whose result is dropped is no pass
        out.append((name, c, its[0]))
    return out


def table_param(facts, fname, which):
    """Name of the parameter through which function `fname` receives assemble's `which` table ('labels' / 'constants') on some
    evaluated path of the pipeline; None when the function is called there without it.  A function the pipeline never calls
    directly keeps the conventional name if it has such a parameter."""
    from .passorder import origins
    f = facts.funcs.get(fname)
    if f is None:
        return None
    params = [a.arg for a in f.args.posonlyargs + f.args.args + f.args.kwonlyargs]
    seen = False
    for value, calls in pass_pipeline(facts).all_paths():
        for c in calls:
            if c.name != fname or c.mapped:
                continue
            seen = True
            bound = list(zip(params, c.args)) + [(k, v) for k, v in (c.kwargs.items() if isinstance(c.kwargs, dict) else c.kwargs)]
            for pname, v in bound:
                if isinstance(v, tuple) and v and any(l == ('param', which) for l in origins(v)):
                    return pname
    if seen:
        return None
    return which if which in params else None


def pipeline(facts):
    """Ordered item passes of `assemble`: [(function name, guard ('always' | 'compress' | 'not compress'), call node, [argument
    texts], the recorded PassCall)].  Derived by evaluating the body of assemble for compress = False / True (passorder), so it does not matter
    whether the passes are spelled as a straight line of assignments, a list of passes applied in a loop, or helper functions.
    A pass is a recorded call of a module-level function that receives the running item list."""
    import difflib
    from .passorder import show as pshow
    pl = pass_pipeline(facts)
    def union(paths):
        """Supersequence of the pass sequences of several paths: [(entry, on every path?)]."""
        merged = None
        for calls in paths:
            cur = [(e, True) for e in item_passes(facts, calls)]
            if merged is None:
                merged = cur
                continue
            sm_ = difflib.SequenceMatcher(a=[e[0] for e, _ in merged], b=[e[0] for e, _ in cur], autojunk=False)
            nxt = []
            for tag, i1, i2, j1, j2 in sm_.get_opcodes():
                if tag == 'equal':
                    nxt.extend(merged[i1:i2])
                else:
                    nxt.extend((e, False) for e, _ in merged[i1:i2])
                    nxt.extend((e, False) for e, _ in cur[j1:j2])
            merged = nxt
        return merged or []
    a, b = union(pl.paths[False]), union(pl.paths[True])
    out = []
    sm = difflib.SequenceMatcher(a=[e[0] for e, _ in a], b=[e[0] for e, _ in b], autojunk=False)

    def row(entry, guard):
        (name, c, x), everywhere = entry
        # a pass that runs on some but not all evaluated paths with the same compress value depends on something else as well
        return (name, guard if everywhere else guard + ' and <another condition>', c.node, [pshow(y) for y in c.args], c)
    for tag, i1, i2, j1, j2 in sm.get_opcodes():
        if tag == 'equal':
            out.extend(row((e, ea and eb), 'always') for (e, eb), (_, ea) in zip(b[j1:j2], a[i1:i2]))
        else:
            out.extend(row(c, 'not compress') for c in a[i1:i2])
            out.extend(row(c, 'compress') for c in b[j1:j2])
    if not out:
        raise AnalysisError('anchor vanished: no item pass found in assemble')
    return out
