#!/usr/bin/env python
"""
Equivalence check for the transform_compressible refactor.

Loads the ORIGINAL bronzebeard/asm.py (from `git show HEAD:bronzebeard/asm.py`)
and the refactored working-tree version side by side (under different module
names) and compares, for a large number of programs assembled with
compress=True:

  * the assembled bytes
  * the final labels / constants dictionaries
  * the exception type and full error text (if assembling fails)
  * the items and labels coming out of every transform_compressible call
    (class name, repr, is_auipc_jump flag, source line number)

Exits 0 only when everything matches.
"""

import atexit
import importlib.util
import itertools
import os
import random
import shutil
import subprocess
import sys
import tempfile
import time

HERE = os.path.dirname(os.path.abspath(__file__))

# the refactored module under test (EQUIV_CANDIDATE lets a mutated copy be checked instead,
# to make sure that this script does notice behaviour changes)
CANDIDATE = os.environ.get('EQUIV_CANDIDATE') or os.path.join(HERE, 'bronzebeard', 'asm.py')


# ----------------------------------------------------------------------------
# module loading
# ----------------------------------------------------------------------------

def load_module(name, path):
    spec = importlib.util.spec_from_file_location(name, path)
    mod = importlib.util.module_from_spec(spec)
    sys.modules[name] = mod
    spec.loader.exec_module(mod)
    return mod


def load_both():
    original_src = subprocess.check_output(
        ['git', 'show', 'HEAD:bronzebeard/asm.py'], cwd=HERE)
    tmpdir = tempfile.mkdtemp(prefix='equiv_asm_')
    atexit.register(shutil.rmtree, tmpdir, ignore_errors=True)
    original_path = os.path.join(tmpdir, 'asm_original.py')
    with open(original_path, 'wb') as f:
        f.write(original_src)
    old = load_module('asm_original', original_path)
    new = load_module('asm_refactored', CANDIDATE)
    assert old is not new
    assert old.transform_compressible is not new.transform_compressible
    with open(CANDIDATE, 'rb') as f:
        if f.read() == original_src:
            print('WARNING: working tree asm.py is identical to HEAD (nothing refactored?)')
    return old, new


def instrument(mod):
    """Record what comes out of every transform_compressible call."""
    mod._trace = []
    inner = mod.transform_compressible

    def wrapper(items, constants, labels):
        try:
            out = inner(items, constants, labels)
        except BaseException as e:
            mod._trace.append(('raised', type(e).__name__, str(e), sorted(labels.items())))
            raise
        snap = []
        for i in out:
            line = getattr(i, 'line', None)
            snap.append((type(i).__name__, repr(i), getattr(i, 'is_auipc_jump', None),
                         getattr(line, 'number', None)))
        mod._trace.append(('ok', snap, sorted(labels.items())))
        return out

    mod.transform_compressible = wrapper


def run(mod, source, labels=None, constants=None):
    mod._trace.clear()
    labels = dict(labels) if labels is not None else {}
    constants = dict(constants) if constants is not None else {}
    try:
        out = mod.assemble(source, compress=True, labels=labels, constants=constants)
        result = ('ok', bytes(out))
    except Exception as e:
        result = ('error', type(e).__name__, str(e))
    return result + (sorted(labels.items()), sorted(constants.items(), key=repr), list(mod._trace))


# ----------------------------------------------------------------------------
# comparison driver
# ----------------------------------------------------------------------------

class Checker:

    def __init__(self, old, new):
        self.old = old
        self.new = new
        self.programs = 0
        self.lines = 0
        self.errors_seen = 0
        self.compressed_seen = 0
        self.mismatches = []
        self.section_name = None
        self.section_start = None
        self.section_programs = 0
        self.log = []

    def section(self, name):
        self.end_section()
        self.section_name = name
        self.section_start = time.time()
        self.section_programs = self.programs

    def end_section(self):
        if self.section_name is not None:
            self.log.append('  %-52s %7d programs  %6.1fs' % (
                self.section_name, self.programs - self.section_programs,
                time.time() - self.section_start))
        self.section_name = None

    def program(self, source, labels=None, constants=None, record=True):
        """Assemble one program with both modules; returns (same, old_result)."""
        a = run(self.old, source, labels, constants)
        b = run(self.new, source, labels, constants)
        self.programs += 1
        same = a == b
        if a[0] == 'error':
            self.errors_seen += 1
        else:
            self.compressed_seen += sum(
                1 for t in a[-1] if t[0] == 'ok' for s in t[1] if s[0].startswith('C'))
        if not same and record:
            self.mismatches.append((self.section_name, source, labels, a, b))
        return same, a

    def lines_each(self, lines, prelude='', labels=None):
        """Every line is its own program (after the optional prelude)."""
        for line in lines:
            self.lines += 1
            self.program(prelude + line + '\n', labels=labels)

    def lines_batched(self, lines, prelude='', labels=None, chunk=48):
        """
        Lines are assembled `chunk` at a time with a label after every line (so
        the size of every single line is compared too). Chunks that fail to
        assemble, or that differ, fall back to one program per line.
        """
        lines = list(lines)
        for k in range(0, len(lines), chunk):
            part = lines[k:k + chunk]
            self.lines += len(part)
            src = [prelude]
            for n, line in enumerate(part):
                src.append(line + '\n')
                src.append('__after_%d:\n' % n)
            same, a = self.program(''.join(src), labels=labels, record=False)
            if same and a[0] == 'ok':
                continue
            # pin it down / check all the lines behind the first error
            for line in part:
                self.program(prelude + line + '\n', labels=labels)

    def merge(self, other):
        self.programs += other['programs']
        self.lines += other['lines']
        self.errors_seen += other['errors_seen']
        self.compressed_seen += other['compressed_seen']
        self.mismatches += other['mismatches']

    def export(self):
        self.end_section()
        return {'programs': self.programs, 'lines': self.lines, 'errors_seen': self.errors_seen,
                'compressed_seen': self.compressed_seen, 'mismatches': self.mismatches[:20], 'log': self.log}

    def report(self):
        self.end_section()
        print('programs: %d  source lines: %d  programs ending in an error: %d  '
              'compressed instructions produced: %d' % (
                  self.programs, self.lines, self.errors_seen, self.compressed_seen))
        if not self.mismatches:
            print('OK: original and refactored transform_compressible agree everywhere')
            return 0
        print('MISMATCHES: %d' % len(self.mismatches))
        for section, source, labels, a, b in self.mismatches[:15]:
            print('=' * 70)
            print('section:', section)
            print('labels :', labels)
            print('source :')
            print(source if len(source) < 1500 else source[:1500] + '...')
            print('original  :', repr(a[:3])[:600])
            print('refactored:', repr(b[:3])[:600])
            if a[:3] == b[:3]:
                for ta, tb in zip(a[-1], b[-1]):
                    if ta != tb:
                        print('trace original  :', repr(ta)[:800])
                        print('trace refactored:', repr(tb)[:800])
                        break
        return 1


# ----------------------------------------------------------------------------
# operand material
# ----------------------------------------------------------------------------

ABI = ['zero', 'ra', 'sp', 'gp', 'tp', 't0', 't1', 't2', 's0', 's1'] + \
      ['a%d' % i for i in range(8)] + ['s%d' % i for i in range(2, 12)] + \
      ['t3', 't4', 't5', 't6']
assert len(ABI) == 32


def spellings(n):
    out = ['x%d' % n, ABI[n], str(n), hex(n), '0o%o' % n, '0b' + bin(n)[2:]]
    if n == 8:
        out.append('fp')
    return out


def spell(n, k):
    s = spellings(n)
    return s[k % len(s)]


ALL = list(range(32))
REPS = [0, 1, 2, 3, 7, 8, 9, 15, 16, 31]  # both sides of every register-set boundary
BAD_REGS = ['x32', '32', 'X5', 'T0', 'foo', '-1', '0x20', 'x-1', 'x08', '8.0', 'sp2', 'c.x8', '1e1']
BAD_IMMS = ['nope', '1.5', '1/0', '2**0.5', '4 +', "'ab'", "'\\x'", "''", '[1]', '"s"', '1 if', 'x8', 'sp', 'None']


def around(*points, span=1):
    out = set()
    for p in points:
        for d in range(-span, span + 1):
            out.add(p + d)
    return out


def uniq_sorted(values):
    return sorted(set(values))


# immediates: both sides of every boundary and every residue of the scale
IMM_ADDI_FULL = uniq_sorted(
    around(0, span=17) | around(-32, 31, span=2) | around(-512, 511, span=18) |
    around(1020, 1023, span=6) | around(-2048, 2047, span=2) |
    {-64, -48, 48, 64, 128, 256, 496, 500, 504, 508, 512, 516, 1000, 1016, -496, -256, -100, 100})
IMM_ADDI_CROSS = uniq_sorted(
    around(0, span=4) | around(-32, 31, span=1) | around(-512, 511, span=1) |
    {-496, -16, 16, 496, 500, 8, 12, 1016, 1020, 1021, 1023, 1024, 1028, 2047, -2048, 2048, -2049})
IMM_LOAD_FULL = uniq_sorted(
    around(0, span=9) | around(124, 127, span=6) | around(252, 255, span=6) |
    around(-2048, 2047, span=2) | {64, 100, 200, 512, 1024})
IMM_LOAD_CROSS = uniq_sorted(
    around(0, span=4) | around(124, 127, span=4) | around(252, 255, span=4) | {2047, -2048, 2048})
IMM_SMALL = uniq_sorted(around(0, span=2) | around(-32, 31, span=2) | around(-2048, 2047, span=1) | {5, -5, 100})
IMM_LUI = uniq_sorted(
    around(0, span=2) | around(-32, 31, span=2) | around(0xfffe0, 0xfffff, span=2) |
    around(-0x80000, 0x7ffff, span=1) | {0x100000, 0x80000, 0x12345, 0xfffdf, 0xffff0, -0x100000, 0xfffe0 - 0x100000})
IMM_JAL = uniq_sorted(around(0, span=5) | around(-2048, 2047, span=5) | {100, -100, 1 << 20, (1 << 20) - 2, -(1 << 20), -(1 << 20) - 2})
IMM_BRANCH = uniq_sorted(around(0, span=5) | around(-256, 255, span=5) | {100, -100, 4094, 4096, -4096, -4098})
IMM_JALR = uniq_sorted(around(0, span=2) | {4, -4, 2047, -2048, 2048})
SHAMTS = list(range(0, 32))
SHAMT_TEXT = [str(s) for s in SHAMTS] + ['32', '33', '-1', '0x1f', '0x0', '0b101', 'x3', 't0', 'zero', 'a5', '0o7', '1+1']

IMM_SPELLINGS = [
    lambda v: str(v),
    lambda v: hex(v),
    lambda v: '(%d)' % v if v >= 0 else '0 - %d' % -v,
    lambda v: '%d + 1 - 1' % v,
    lambda v: '%d * 2 // 2' % v,
    lambda v: '(%d << 1) >> 1' % v,
]


def imm_spell(v, k, parens=True):
    k = k % len(IMM_SPELLINGS)
    text = IMM_SPELLINGS[k](v)
    if text.startswith('(') and not parens:
        text = '%d << 1 >> 1' % v if k == 5 else '0 + %d' % v if v >= 0 else '0 - %d' % -v
    return text


# ----------------------------------------------------------------------------
# sections
# ----------------------------------------------------------------------------

CROSS_RRI = {'addi': IMM_ADDI_CROSS, 'lw': IMM_LOAD_CROSS, 'andi': IMM_SMALL, 'jalr': IMM_JALR}
CUBE_SUBSET = [0, 1, 2, 3, 7, 8, 9, 10, 11, 12, 13, 14, 15, 16, 17, 31]


def cross_rd_rs1_imm(c, name):
    """All 32 x 32 register combinations (rotating spellings) of: name rd, rs1, imm"""
    c.section('reg cross: ' + name)
    lines = []
    for n, imm in enumerate(CROSS_RRI[name]):
        for rd, rs1 in itertools.product(ALL, ALL):
            k = rd + rs1 + n
            text = imm_spell(imm, k, parens=name not in ('lw', 'jalr') or n % 9 == 0)
            lines.append('%s %s, %s, %s' % (name, spell(rd, k), spell(rs1, k // 2), text))
    c.lines_batched(lines)


def cross_offset_syntax(c):
    c.section('reg cross: lw/sw offset syntax')
    lines = []
    for n, imm in enumerate(IMM_LOAD_CROSS):
        for ra, rb in itertools.product(ALL, ALL):
            k = ra * 3 + rb + n
            lines.append('sw %s, %s, %s' % (spell(ra, k), spell(rb, k // 3), imm))
            if (ra + rb + n) % 3 == 0:
                lines.append('sw %s, %s(%s)' % (spell(rb, k), imm, spell(ra, k + 1)))
                lines.append('lw %s, %s(%s)' % (spell(ra, k), imm, spell(rb, k + 1)))
    c.lines_batched(lines)


def cross_branch(c, name):
    c.section('reg cross: ' + name)
    lines = []
    for n, imm in enumerate(IMM_BRANCH):
        for rs1, rs2 in itertools.product(ALL, ALL):
            k = rs1 + 2 * rs2 + n
            lines.append('%s %s, %s, %s' % (name, spell(rs1, k), spell(rs2, k // 2), imm))
    c.lines_batched(lines)


def cross_shift(c, name):
    c.section('reg cross: ' + name)
    lines = []
    for n, sh in enumerate(SHAMT_TEXT):
        for rd, rs1 in itertools.product(ALL, ALL):
            if not (rd in REPS or rs1 in REPS or rd == rs1 or n % 3 == 0):
                continue
            k = rd + rs1 + n
            lines.append('%s %s, %s, %s' % (name, spell(rd, k), spell(rs1, k // 2), sh))
    c.lines_batched(lines)


def cube(c, name):
    """rd x rs1 x rs2: the full cube for add / sub, every position with all 32 for the rest."""
    c.section('reg cube: ' + name)
    lines = []
    if name in ('add', 'sub'):
        triples = itertools.product(ALL, ALL, ALL)
    else:
        triples = set(itertools.product(CUBE_SUBSET, CUBE_SUBSET, CUBE_SUBSET))
        for r in ALL:
            for a, b in itertools.product(REPS, REPS):
                triples |= {(r, a, b), (a, r, b), (a, b, r), (r, r, a), (r, a, r), (a, r, r)}
        triples = sorted(triples)
    for rd, rs1, rs2 in triples:
        k = rd + rs1 * 5 + rs2 * 7
        lines.append('%s %s, %s, %s' % (name, spell(rd, k), spell(rs1, k // 2), spell(rs2, k // 3)))
    c.lines_batched(lines)


def cross_rd_imm(c):
    c.section('reg cross: lui / jal')
    lines = []
    for rd in ALL:
        for s in spellings(rd):
            for n, imm in enumerate(IMM_LUI):
                lines.append('lui %s, %s' % (s, imm_spell(imm, n) if n % 2 else imm))
    for rd in ALL:
        for s in spellings(rd):
            for imm in IMM_JAL:
                lines.append('jal %s, %s' % (s, imm))
    c.lines_batched(lines)


def spell_addi_full(c):
    """Representative register pairs with the full immediate list (every residue of every scale)."""
    c.section('spellings: addi full immediates')
    lines = []
    pairs = set(itertools.product(REPS, REPS)) | {(r, r) for r in ALL} | \
        {(r, 2) for r in ALL} | {(r, 0) for r in ALL} | {(2, r) for r in ALL} | {(0, r) for r in ALL}
    for imm in IMM_ADDI_FULL:
        for rd, rs1 in sorted(pairs):
            lines.append('addi x%d, x%d, %d' % (rd, rs1, imm))
    c.lines_batched(lines)



def spell_positions(c, regs):
    """Every spelling of every register in every operand position."""
    c.section('spellings: every spelling per position x%d-x%d' % (regs[0], regs[-1]))
    lines = []
    for r in regs:
        for s in spellings(r):
            for o in (0, 2, 8, 17):
                for imm in (0, 4, 16, -16, 31, 32, 124, 128, 252, 256, 1020, 1024):
                    lines.append('addi %s, x%d, %d' % (s, o, imm))
                    lines.append('addi x%d, %s, %d' % (o, s, imm))
                    lines.append('addi %s, %s, %d' % (s, spell(r, o), imm))
                    lines.append('lw %s, x%d, %d' % (s, o, imm))
                    lines.append('lw x%d, %d(%s)' % (o, imm, s))
                    lines.append('sw %s, x%d, %d' % (s, o, imm))
                    lines.append('sw x%d, %d(%s)' % (o, imm, s))
                for imm in (-34, -33, -32, 0, 31, 32):
                    lines.append('andi %s, x%d, %d' % (s, o, imm))
                    lines.append('andi x%d, %s, %d' % (o, s, imm))
                    lines.append('andi %s, %s, %d' % (s, s, imm))
                for imm in (-258, -256, -2, 0, 2, 3, 254, 256):
                    lines.append('beq %s, x%d, %d' % (s, o, imm))
                    lines.append('bne x%d, %s, %d' % (o, s, imm))
                for op in ('add', 'sub', 'xor', 'or', 'and'):
                    lines.append('%s %s, %s, x%d' % (op, s, s, o))
                    lines.append('%s %s, x%d, %s' % (op, s, o, s))
                    lines.append('%s x%d, x%d, %s' % (op, o, o, s))
                for op in ('slli', 'srli', 'srai'):
                    for sh in ('0', '1', '31', '32', s):
                        lines.append('%s %s, %s, %s' % (op, s, s, sh))
                        lines.append('%s %s, x%d, %s' % (op, s, o, sh))
                        lines.append('%s x%d, x%d, %s' % (op, o, o, s))
                for imm in (0, 1, -1):
                    lines.append('jalr %s, x%d, %d' % (s, o, imm))
                    lines.append('jalr x%d, %s, %d' % (o, s, imm))
                    lines.append('jalr x%d, %d(%s)' % (o, imm, s))
    c.lines_batched(lines)



def spell_misc(c):
    c.section('spellings: load/store full immediates')
    lines = []
    for imm in IMM_LOAD_FULL:
        for ra, rb in itertools.product(REPS + [10, 14], REPS + [10, 14]):
            lines.append('lw x%d, x%d, %d' % (ra, rb, imm))
            lines.append('sw x%d, x%d, %d' % (ra, rb, imm))
    c.lines_batched(lines)

    c.section('spellings: no-operand and neighbours')
    lines = ['ebreak', 'EBREAK', 'ecall', 'fence.i', 'fence', 'fence 0xf, 0xf', 'fence iorw, iorw',
             'c.ebreak', 'c.nop', 'nop', 'ret']
    # instructions without a compressed form must come through untouched
    for rd, rs1 in itertools.product(REPS, REPS):
        for imm in (-33, -32, 0, 1, 4, 16, 31, 32):
            for op in ('ori', 'xori', 'slti', 'sltiu', 'lb', 'lh', 'lbu', 'lhu', 'csrrw', 'csrrs'):
                lines.append('%s x%d, x%d, %d' % (op, rd, rs1, imm))
            for op in ('sb', 'sh', 'blt', 'bge', 'bltu', 'bgeu'):
                lines.append('%s x%d, x%d, %d' % (op, rd, rs1, imm))
        for op in ('sll', 'srl', 'sra', 'slt', 'sltu', 'mul', 'mulh', 'div', 'rem', 'remu'):
            lines.append('%s x%d, x%d, x%d' % (op, rd, rs1, rd))
            lines.append('%s x%d, x%d, x%d' % (op, rd, rd, rs1))
        for op in ('amoadd.w', 'amoswap.w', 'sc.w'):
            lines.append('%s x%d, x%d, x%d' % (op, rd, rs1, rd))
        lines.append('lr.w x%d, x%d' % (rd, rs1))
        lines.append('auipc x%d, %d' % (rd, rs1))
    # explicitly compressed source instructions pass through both passes
    for r in REPS:
        for imm in (-32, -1, 0, 1, 4, 16, 31, 32, 64, 124, 128):
            lines.append('c.addi x%d, %d' % (r, imm))
            lines.append('c.li x%d, %d' % (r, imm))
            lines.append('c.lui x%d, %d' % (r, imm))
            lines.append('c.slli x%d, %d' % (r, imm))
            lines.append('c.srli x%d, %d' % (r, imm))
            lines.append('c.andi x%d, %d' % (r, imm))
            lines.append('c.lwsp x%d, %d' % (r, imm))
            lines.append('c.swsp x%d, %d' % (r, imm))
            lines.append('c.addi4spn x%d, %d' % (r, imm))
            lines.append('c.addi16sp %d' % imm)
            lines.append('c.lw x%d, %d(x8)' % (r, imm))
            lines.append('c.sw x%d, x9, %d' % (r, imm))
            lines.append('c.beqz x%d, %d' % (r, imm))
            lines.append('c.j %d' % imm)
            lines.append('c.jal %d' % imm)
        for o in REPS:
            lines.append('c.mv x%d, x%d' % (r, o))
            lines.append('c.add x%d, x%d' % (r, o))
            lines.append('c.sub x%d, x%d' % (r, o))
            lines.append('c.and x%d, x%d' % (r, o))
        lines.append('c.jr x%d' % r)
        lines.append('c.jalr x%d' % r)
    c.lines_batched(lines)


GOOD_REGS = ['x0', 'x1', 'x2', 'x5', 'x8', 'x15', 'x16']
GOOD_IMMS = ['0', '4', '16', '31', '32', '100', '4096']


def errors_imm_forms(c, names):
    """Bad operands: the first error reported has to stay the same one."""
    c.section('errors: bad operands of ' + ' '.join(names))
    good_regs, good_imms = GOOD_REGS, GOOD_IMMS
    lines = []
    for name in names:
        for bad in BAD_REGS:
            for g in good_regs:
                for imm in good_imms[:4] + BAD_IMMS[:3]:
                    lines.append('%s %s, %s, %s' % (name, bad, g, imm))
                    lines.append('%s %s, %s, %s' % (name, g, bad, imm))
            for bad2 in BAD_REGS[:5]:
                for imm in ('0', '16', 'nope', '1/0'):
                    lines.append('%s %s, %s, %s' % (name, bad, bad2, imm))
        for bad in BAD_IMMS:
            for ra, rb in itertools.product(good_regs, good_regs):
                lines.append('%s %s, %s, %s' % (name, ra, rb, bad))
        for ra, rb in itertools.product(good_regs, good_regs):
            for imm in ('99999', '-99999', '0x1000', '-4096', '1 << 40'):
                lines.append('%s %s, %s, %s' % (name, ra, rb, imm))
    c.lines_each(lines)


def errors_reg_forms(c, names):
    c.section('errors: bad operands of ' + ' '.join(names))
    good_regs, good_imms = GOOD_REGS, GOOD_IMMS
    lines = []
    for name in names:
        for bad in BAD_REGS + ['40', '0x40', '1+1', 'nope']:
            for ra, rb in itertools.product(good_regs, good_regs):
                lines.append('%s %s, %s, %s' % (name, bad, ra, rb))
                lines.append('%s %s, %s, %s' % (name, ra, bad, rb))
                lines.append('%s %s, %s, %s' % (name, ra, rb, bad))
            for bad2 in BAD_REGS[:4]:
                lines.append('%s %s, %s, x8' % (name, bad, bad2))
                lines.append('%s %s, x8, %s' % (name, bad, bad2))
                lines.append('%s x8, %s, %s' % (name, bad, bad2))
                lines.append('%s %s, %s, %s' % (name, bad, bad2, bad))
    c.lines_each(lines)


def errors_misc(c):
    c.section('errors: lui / jal / auipc operands, arity')
    good_regs, good_imms = GOOD_REGS, GOOD_IMMS
    lines = []
    for name in ('lui', 'jal', 'auipc'):
        for bad in BAD_REGS:
            for imm in good_imms + BAD_IMMS:
                lines.append('%s %s, %s' % (name, bad, imm))
        for g in good_regs:
            for imm in BAD_IMMS + ['0x100000', '-0x80001', '1 << 21', '3', '-3', 'missing_label']:
                lines.append('%s %s, %s' % (name, g, imm))
    # wrong arity / syntax
    lines += ['addi x1, x1', 'addi x1', 'addi', 'add x1, x2', 'add x1, x2, x3, x4', 'lw x8, 4(x8', 'lw x8, (x8)',
              'sw x8, x9', 'lui x5', 'jal x1, a, b', 'beq x8, x0', 'beq x8, x0, 4, 4', 'ebreak x1',
              'slli x8, x8', 'jalr x1, x2', 'lw x8 4 ( x9 )', 'sw x8, 4(x9) extra']
    c.lines_each(lines)


def errors_references(c):
    c.section('errors: undefined references')
    lines = []
    for ra, rb in itertools.product(['x0', 'x1', 'x2', 'x8', 'x16', 'bad'], repeat=2):
        for imm in ('%lo(nowhere)', '%hi(nowhere)', '%offset(nowhere)', '%position(nowhere, 0)',
                    '%position(here, nope)', '%lo(%hi(nowhere))', 'nowhere', 'nowhere + 4', 'here', '%offset here',
                    '%lo here', '%position here 4'):
            lines.append('addi %s, %s, %s' % (ra, rb, imm))
            lines.append('lw %s, %s, %s' % (ra, rb, imm))
            lines.append('sw %s, %s, %s' % (ra, rb, imm))
            lines.append('jalr %s, %s, %s' % (ra, rb, imm))
        for ref in ('nowhere', 'here', '4', '0x10'):
            lines.append('beq %s, %s, %s' % (ra, rb, ref))
            lines.append('bne %s, %s, %s' % (ra, rb, ref))
        for ref in ('nowhere', 'here', '%hi(nowhere)', '%hi(here)'):
            lines.append('lui %s, %s' % (ra, ref))
            lines.append('jal %s, %s' % (ra, ref))
    c.lines_each(lines, prelude='here:\n')


def section_pseudo(c):
    """Every pseudo-instruction, with operands on both sides of the interesting boundaries."""
    c.section('pseudo: register forms')
    lines = ['nop', 'ret', 'fence', 'NOP', 'Ret']
    for rd, rs in itertools.product(ALL, ALL):
        k = rd + rs
        for op in ('mv', 'not', 'neg', 'seqz', 'snez', 'sltz', 'sgtz'):
            lines.append('%s %s, %s' % (op, spell(rd, k), spell(rs, k // 2)))
    for r in ALL:
        for s in spellings(r) + ['x32', 'foo']:
            lines.append('jr %s' % s)
            lines.append('jalr %s' % s)
    c.lines_batched(lines)

    c.section('pseudo: li')
    values = uniq_sorted(
        around(0, span=3) | around(-32, 31, span=2) | around(-2048, 2047, span=2) |
        around(0x1000, 0x20000, -0x1000, -0x20000, span=1) |
        around(0x1f000, 0x20000 - 0x800, -0x20000 - 0x800, -0x20800, 0xfffe0000, 0xfffff000, span=2) |
        {0x12345678, 0x7fffffff, -0x80000000, 0x80000000, 0xffffffff, 0xfffff800, 0xfffff7ff, 0x7ff, 0x800,
         0x1f800, 0x1f7ff, 0x20 << 12, 0x1f << 12, (0x1f << 12) + 31, (0x1f << 12) + 32, (0x1f << 12) - 32,
         (0x1f << 12) - 33, 0xdeadbeef, 0x100000000, -0x80000001, 0xfffe0800, 0xfffdf800, 0xfffdf7ff})
    lines = []
    for v in values:
        for r in (0, 1, 2, 5, 8, 15, 16, 31):
            lines.append('li x%d, %d' % (r, v))
        lines.append('li %s, %s' % ('a0', hex(v)))
    for r in ALL:
        for v in (0, 5, -33, 0x1000, 0x12345678, 0x1f000 + 5, 0x20000):
            lines.append('li %s, %d' % (spell(r, v), v))
    lines += ['li x5, target', 'li x8, target + 1', 'li x2, %lo(target)', 'li x5, %hi(target)', 'li x5, nope',
              'li x40, 5', 'li foo, 0x12345', 'li x5', 'li']
    c.lines_batched(lines, prelude='target:\n')
    c.lines_batched(lines, labels={'target': 0x1f000})
    c.lines_batched(lines, labels={'target': 0x12345678})

    pseudo_far(c)


def gap_body(nbytes):
    """Lines that occupy nbytes once compressed: two compressible instructions and padding data."""
    k = min(2, nbytes // 2)
    out = ['addi x8, x8, 1'] * k
    if nbytes - 2 * k:
        out.append('string ' + 'a' * (nbytes - 2 * k))
    return out


def pseudo_branches(c):
    c.section('pseudo: branches and jumps to labels')
    body = gap_body

    jumps = []
    for r in ('x0', 'x1', 'x8', 'x9', 'x15', 'x16', 'a0', 'sp'):
        for op in ('beqz', 'bnez', 'blez', 'bgez', 'bltz', 'bgtz'):
            jumps.append('%s %s, dest' % (op, r))
        for o in ('x0', 'x8', 'x17'):
            for op in ('bgt', 'ble', 'bgtu', 'bleu', 'beq', 'bne', 'blt'):
                jumps.append('%s %s, %s, dest' % (op, r, o))
    for dist in list(range(0, 12, 2)) + list(range(246, 266, 2)):
        for chunk in range(0, len(jumps), 8):
            group = jumps[chunk:chunk + 8]
            # forwards: every branch gets its own destination `dist` bytes further
            src = []
            for n, j in enumerate(group):
                src.append(j.replace('dest', 'fwd%d' % n))
                src += body(dist)
                src.append('fwd%d:' % n)
            c.lines += len(src)
            c.program('\n'.join(src) + '\n')
            # backwards
            src = []
            for n, j in enumerate(group):
                src.append('back%d:' % n)
                src += body(dist)
                src.append(j.replace('dest', 'back%d' % n))
            c.lines += len(src)
            c.program('\n'.join(src) + '\n')

    jumps = ['j dest', 'jal dest', 'jal x0, dest', 'jal x1, dest', 'jal ra, dest', 'jal x5, dest', 'call dest',
             'tail dest', 'jal zero, %offset(dest)', 'jal x1, %offset dest']
    for dist in list(range(0, 8, 2)) + list(range(2036, 2060, 2)):
        for j in jumps:
            src = [j] + body(dist) + ['dest:', 'ret']
            c.lines += len(src)
            c.program('\n'.join(src) + '\n')
            src = ['dest:'] + body(dist) + [j, 'ret']
            c.lines += len(src)
            c.program('\n'.join(src) + '\n')



def pseudo_far(c):
    c.section('pseudo: far call / tail (auipc + jalr)')
    for base in (1 << 20, (1 << 20) + 0x1000, 1 << 21, 0x7ffff000, 0x12345000):
        for delta in (-4100, -4098, -4096, -2050, -2048, -2046, -8, -6, -4, -2, 0, 2, 4, 6, 8, 10, 12, 16,
                      2044, 2046, 2048, 2050, 4096):
            labels = {'far': base + delta}
            for pre in ([], ['addi x8, x8, 1'], ['ori x5, x5, 1'], ['addi x8, x8, 1', 'ori x5, x5, 1']):
                for op in ('call far', 'tail far', 'j far', 'jal far', 'jal x1, far', 'li a0, far',
                           'lui a0, %hi(far)\naddi a0, a0, %lo(far)', 'auipc a0, %hi(%offset(far))\njalr x1, a0, %lo(%offset(far))'):
                    src = pre + [op, 'after:', 'ret']
                    c.lines += len(src)
                    c.program('\n'.join(src) + '\n', labels=labels)


def section_constants_aliases(c):
    c.section('constants and aliases as operands')
    prelude = ''.join('r_%d = %d\n' % (i, i) for i in range(32))
    prelude += 'r_bad = 32\nr_neg = -1\nr_big = 1 << 40\n'
    lines = []
    for a, b in itertools.product(ALL, ALL):
        lines.append('addi r_%d, r_%d, 16' % (a, b))
        lines.append('addi r_%d, r_%d, 0' % (a, b))
        lines.append('lw r_%d, 4(r_%d)' % (a, b))
        lines.append('sw r_%d, r_%d, 8' % (a, b))
        lines.append('add r_%d, r_%d, r_%d' % (a, a, b))
        lines.append('and r_%d, r_%d, r_%d' % (a, b, a))
        lines.append('slli r_%d, r_%d, r_%d' % (a, a, b))
        lines.append('srai r_%d, r_%d, r_%d' % (a, b, b))
        lines.append('beq r_%d, r_%d, 8' % (a, b))
        lines.append('mv r_%d, r_%d' % (a, b))
    for a in ALL:
        lines.append('lui r_%d, 5' % a)
        lines.append('jal r_%d, 8' % a)
        lines.append('jalr r_%d, r_%d, 0' % (a, (a + 1) % 32))
        lines.append('li r_%d, 7' % a)
        lines.append('jr r_%d' % a)
        for bad in ('r_bad', 'r_neg', 'r_big', 'r_none'):
            lines.append('addi %s, r_%d, 1' % (bad, a))
            lines.append('addi r_%d, %s, 1' % (a, bad))
            lines.append('add r_%d, r_%d, %s' % (a, a, bad))
            lines.append('slli r_%d, r_%d, %s' % (a, a, bad))
            lines.append('lui %s, %d' % (bad, a))
            lines.append('sw r_%d, %s, 0' % (a, bad))
    c.lines_batched(lines, prelude=prelude)

    prelude = ('ZERO = 0\nFOUR = 4\nFRAME = 16\nBIG = 512\nNEG = -32\nMASK = 0xfffe0\nTOP = 0xfffff\n'
               'SHIFT = 5\nWORD = FOUR\nDOUBLE = FRAME * 2\nSTACK = sp\nBASE = s0\nACC = a0\nCH = \'a\'\n')
    lines = []
    imms = ['ZERO', 'FOUR', 'FRAME', '-FRAME', 'BIG', '-BIG', 'BIG - FRAME', 'BIG - 1', 'NEG', 'NEG - 1', 'DOUBLE',
            'FRAME * 63', 'FRAME * 64', 'FOUR * 255', 'FOUR * 256', 'WORD * 31', 'WORD * 32', 'WORD * 63',
            'WORD * 64', 'FRAME + 1', 'FOUR + 2', 'ZERO + 0', 'FRAME - FRAME', 'CH', 'CH - 66', "'a'", "'0' - 48",
            'FRAME >> 4', 'FRAME // 3', 'FRAME / 4', 'FRAME % 5', '~ZERO', 'FRAME if ZERO else FOUR', 'UNKNOWN',
            'zero', 'sp', 'STACK', 'BASE + 8', 'x8', 'BASE', 'FOUR ** 3', '(FRAME)', 'FRAME == 16', 'not ZERO']
    regs = ['sp', 'STACK', 'BASE', 'ACC', 'x0', 'ZERO', 'FOUR', 'FRAME', 'SHIFT', 'x9', 'a5', 'a6', 'UNKNOWN']
    for imm in imms:
        for ra, rb in itertools.product(regs, regs):
            lines.append('addi %s, %s, %s' % (ra, rb, imm))
        for ra, rb in itertools.product(regs[:6] + ['x9'], regs[:6] + ['x9']):
            lines.append('lw %s, %s, %s' % (ra, rb, imm))
            lines.append('sw %s, %s, %s' % (ra, rb, imm))
            lines.append('andi %s, %s, %s' % (ra, rb, imm))
            lines.append('jalr %s, %s, %s' % (ra, rb, imm))
    for imm in ['MASK', 'TOP', 'MASK - 1', 'TOP + 1', 'NEG', 'NEG - 1', '-NEG - 1', '-NEG', 'ZERO', 'FOUR', 'UNKNOWN',
                '%hi(BIG)', '%hi(BIG * 8)', '%hi(0x1f000)', '%hi(0x1f800)', '%hi(0x20000)', '%hi(0xfffe0000)',
                '%hi(0xfffdf800)', '%hi(0xfffdf7ff)', '%hi(0xfffff800)', '%hi(0x800)', '%hi(0x7ff)']:
        for r in regs + ['x1', 'x2', 'x3', 'x31']:
            lines.append('lui %s, %s' % (r, imm))
            lines.append('li %s, %s' % (r, imm))
    for sh in ['SHIFT', 'ZERO', 'FOUR', 'FRAME', 'DOUBLE', 'BIG', 'NEG', 'UNKNOWN', 'STACK', 'SHIFT + 1', 'x5', '5']:
        for ra, rb in itertools.product(regs, regs[:8]):
            for op in ('slli', 'srli', 'srai'):
                lines.append('%s %s, %s, %s' % (op, ra, rb, sh))
    for ra, rb, rc in itertools.product(regs[:9], regs[:9], regs[:9]):
        for op in ('add', 'sub', 'or'):
            lines.append('%s %s, %s, %s' % (op, ra, rb, rc))
    c.lines_batched(lines, prelude=prelude)

    c.section('constants: shadowing and odd definitions')
    programs = [
        'here = 4\nhere:\naddi x8, x8, here\njal x0, here\n',
        'spot:\nspot = 64\nbeq x8, x0, spot\nlw x8, spot(x8)\n',
        'K = 16\naddi sp, sp, K\nK = 32\naddi sp, sp, K\nK = 1024\naddi sp, sp, K\n',
        'x8 = 5\n', '5 = 5\n', 'K = later\nlater:\n', 'K = 1.5\naddi x8, x8, K\n',
        'R = x8\nS = R\naddi S, R, 1\nlw S, 0(R)\n',
        'R = 8\nadd R, R, R\nslli R, R, R\nsrli R, R, 3\n',
        'R = 2\naddi R, R, -64\naddi x8, R, 64\nlw x5, 12(R)\nsw R, x5, 8\nlui R, 1\n',
        'N = 0\naddi x5, x5, N\naddi x0, x0, N\njalr x0, x1, N\nlui x5, N\n',
        'A = %lo(4)\n', 'A = %offset(foo)\nfoo:\n',
    ]
    for p in programs:
        c.lines += p.count('\n')
        c.program(p)
        c.program(p, labels={'later': 8, 'K': 3}, constants={'K': 16, 'R': 9})


def label_uses():
    uses = []
    for r in ('x2', 'x8', 'x5', 'x0', 'x16'):
        for o in ('x2', 'x8', 'x0', 'x5'):
            for imm in ('%lo(L)', '%lo(M)', 'L', 'M', 'M - L', 'L - M', '%position(L, 0)', '%position(M, -8)',
                        '%offset(L)', '%offset(M)', '%lo(%offset(M))', '%lo(M - L)', '(M - L) * 4', '%position L 4',
                        '%offset M', '%lo M'):
                uses.append('addi %s, %s, %s' % (r, o, imm))
                uses.append('lw %s, %s, %s' % (r, o, imm))
                uses.append('sw %s, %s, %s' % (r, o, imm))
                if '(' not in imm and ' ' not in imm:
                    uses.append('lw %s, %s(%s)' % (r, imm, o))
                else:
                    uses.append('andi %s, %s, %s' % (r, o, imm))
                uses.append('jalr %s, %s, %s' % (r, o, imm))
        for imm in ('%hi(L)', '%hi(M)', '%hi(M - L)', 'M', 'M - L', '%hi(%offset(M))', '%hi M', '%hi(0xfffe0000 + M)'):
            uses.append('lui %s, %s' % (r, imm))
    return uses


# gaps chosen so that the label values land on both sides of 0/4/16/32/128/256/512/1024
LABEL_GAPS = [0, 2, 4, 6, 8, 12, 14, 16, 18, 28, 30, 32, 34, 60, 64, 124, 126, 128, 132, 252, 256, 260, 496, 508, 512,
              516, 1016, 1020, 1024, 1028]


def label_operands(c, part, parts):
    """Operands computed from labels, used in front of, between and behind the two labels."""
    c.section('labels: %%lo / %%hi / %%position / %%offset operands (%d/%d)' % (part + 1, parts))
    uses = label_uses()
    for n, gap in enumerate(LABEL_GAPS):
        if n % parts != part:
            continue
        front = LABEL_GAPS[(n * 7) % len(LABEL_GAPS)]
        body_front = gap_body(front)
        body_gap = gap_body(gap)
        for k, u in enumerate(uses):
            place = (k + n) % 3
            if place == 0:
                src = body_front + [u, 'L:'] + body_gap + ['M:', 'ret']
            elif place == 1:
                src = body_front + ['L:', u] + body_gap + ['M:', 'ret']
            else:
                src = body_front + ['L:'] + body_gap + ['M:', u, 'ret']
            c.lines += len(src)
            c.program('\n'.join(src) + '\n')


def label_chains(c):
    c.section('labels: shrinking chains')
    # every compressed instruction moves all labels behind it, which can make later jumps eligible
    for n in range(118, 138):
        for filler in ('addi x8, x8, 1', 'add x9, x9, x10', 'lw a0, 4(a1)', 'ori x5, x5, 1', 'mv a0, a1', 'li a0, 5',
                       'li a0, 0x12345', 'slli a0, a0, 2'):
            src = ['top:', 'beqz a0, bottom', 'bnez a1, bottom', 'j bottom', 'jal bottom', 'call bottom'] + \
                [filler] * n + ['beq a0, x0, top', 'bne a1, zero, top', 'jal x0, top', 'tail top', 'bottom:', 'ret']
            c.lines += len(src)
            c.program('\n'.join(src) + '\n')
    for n in range(1016, 1030):
        for filler in ('addi x8, x8, 1', 'add x9, x9, x10'):
            src = ['top:', 'j bottom', 'jal bottom', 'call bottom', 'beqz a0, bottom'] + [filler] * n + \
                ['jal x0, top', 'tail top', 'jal ra, top', 'bnez a0, top', 'bottom:', 'ret']
            c.lines += len(src)
            c.program('\n'.join(src) + '\n')


# ----------------------------------------------------------------------------
# random programs
# ----------------------------------------------------------------------------

def random_programs(c, count, seed):
    c.section('random programs (seed %d)' % seed)
    rng = random.Random(seed)

    reg_pool = [0, 1, 2, 2, 8, 8, 9, 10, 11, 12, 13, 14, 15, 15, 5, 6, 7, 16, 17, 28, 31] + list(range(32))
    imm_pool_all = sorted(set(IMM_ADDI_CROSS) | set(IMM_LOAD_CROSS) | set(IMM_SMALL))
    imm_pool_ok = [v for v in imm_pool_all if -2048 <= v <= 2047]
    lui_ok = [v for v in IMM_LUI if -0x80000 <= v <= 0xfffff]
    shamt_ok = [t for t in SHAMT_TEXT if t not in ('32', '33', '-1', '1+1')]

    def reg(bad=False):
        if bad and rng.random() < 0.5:
            return rng.choice(BAD_REGS)
        r = rng.choice(reg_pool)
        return spell(r, rng.randrange(6)) if rng.random() < 0.7 else 'x%d' % r

    for p in range(count):
        nlabels = rng.randrange(0, 6)
        label_names = ['lab%d' % i for i in range(nlabels)]
        const_names = []
        alias_names = []
        sloppy = rng.random() < 0.12   # allow broken operands in this program
        nlines = rng.randrange(3, 45)
        pending = list(label_names)
        rng.shuffle(pending)
        src = []

        imm_pool = imm_pool_all if sloppy else imm_pool_ok

        def ref(numeric=True):
            choices = list(label_names)
            if sloppy and rng.random() < 0.2:
                choices.append('ghost')
            if numeric and (not choices or rng.random() < 0.1):
                return str(rng.choice((-8, -2, 0, 2, 4, 8, 64, 254, 256, 258)))
            if not choices:
                return 'ghost'
            return rng.choice(choices)

        def anyreg():
            if alias_names and rng.random() < 0.15:
                return rng.choice(alias_names)
            return reg(bad=sloppy and rng.random() < 0.08)

        def imm(pool=None, parens=True):
            roll = rng.random()
            if sloppy and roll < 0.04:
                return rng.choice(BAD_IMMS)
            if const_names and roll < 0.15:
                k = rng.choice(const_names)
                return rng.choice([k, '%s + %d' % (k, rng.choice((0, 1, 4, 16))), '-%s' % k, '%s * 4' % k])
            if label_names and roll < 0.25:
                l = rng.choice(label_names)
                return rng.choice(['%%lo(%s)' % l, '%%position(%s, 0)' % l, l, '%%offset(%s)' % l,
                                   '%%lo(%%offset(%s))' % l])
            v = rng.choice(pool or imm_pool)
            if not sloppy and not -2048 <= v <= 2047:
                v = v % 2048
            return imm_spell(v, rng.randrange(6), parens=parens) if rng.random() < 0.3 else str(v)

        for n in range(nlines):
            if pending and rng.random() < 0.15:
                src.append(pending.pop() + ':')
            kind = rng.random()
            if kind < 0.22:
                src.append('addi %s, %s, %s' % (anyreg(), anyreg(), imm()))
            elif kind < 0.30:
                r = anyreg()
                src.append('addi %s, %s, %s' % (r, r, imm()))
            elif kind < 0.36:
                src.append('addi %s, %s, %s' % (rng.choice(['sp', 'x2', 's0', 'a0', anyreg()]), rng.choice(['sp', 'x2', '2']),
                                               imm([-512, -496, -64, -32, -16, 0, 4, 8, 16, 32, 48, 496, 500, 512, 1020, 1024])))
            elif kind < 0.44:
                op = rng.choice(['lw', 'sw'])
                if rng.random() < 0.5:
                    src.append('%s %s, %s(%s)' % (op, anyreg(), rng.choice(IMM_LOAD_CROSS), anyreg()))
                else:
                    src.append('%s %s, %s, %s' % (op, anyreg(), anyreg(), imm(IMM_LOAD_CROSS, parens=sloppy)))
            elif kind < 0.50:
                r = anyreg()
                op = rng.choice(['add', 'sub', 'xor', 'or', 'and', 'sll', 'mul'])
                src.append('%s %s, %s, %s' % (op, r, rng.choice([r, anyreg(), 'x0']), anyreg()))
            elif kind < 0.55:
                r = anyreg()
                sh = rng.choice((SHAMT_TEXT if sloppy else shamt_ok) + (const_names or ['3']))
                src.append('%s %s, %s, %s' % (rng.choice(['slli', 'srli', 'srai']), r, rng.choice([r, anyreg()]), sh))
            elif kind < 0.59:
                r = anyreg()
                src.append('andi %s, %s, %s' % (r, rng.choice([r, anyreg()]), imm(IMM_SMALL)))
            elif kind < 0.63:
                if rng.random() < 0.8:
                    v = rng.choice(IMM_LUI if sloppy else lui_ok)
                    src.append('lui %s, %s' % (anyreg(), rng.choice([str(v), hex(v)])))
                else:
                    src.append('lui %s, %%hi(%s)' % (anyreg(), ref()))
            elif kind < 0.70:
                src.append('%s %s, %s, %s' % (rng.choice(['beq', 'bne', 'blt', 'bgeu']), anyreg(),
                                             rng.choice(['x0', 'zero', '0', anyreg()]), ref()))
            elif kind < 0.75:
                src.append('jal %s, %s' % (rng.choice(['x0', 'x1', 'ra', 'zero', anyreg()]), ref()))
            elif kind < 0.79:
                src.append('jalr %s, %s, %s' % (rng.choice(['x0', 'x1', anyreg()]), anyreg(),
                                               rng.choice(['0', '0', '0', '4', imm(IMM_JALR if sloppy else [-2048, -4, -2, 0, 2, 4, 2046],
                                                                               parens=sloppy)])))
            elif kind < 0.90:
                op = rng.choice(['nop', 'li', 'li', 'mv', 'not', 'neg', 'seqz', 'snez', 'sltz', 'sgtz', 'beqz', 'bnez',
                                 'blez', 'bgez', 'bltz', 'bgtz', 'bgt', 'ble', 'bgtu', 'bleu', 'j', 'jal', 'jr', 'jalr',
                                 'ret', 'call', 'tail', 'fence', 'ebreak', 'ecall'])
                if op in ('nop', 'ret', 'fence', 'ebreak', 'ecall'):
                    src.append(op)
                elif op == 'li':
                    v = rng.choice([0, 1, -1, 31, 32, -32, -33, 2047, 2048, -2048, -2049, 0x1000, 0x1f000, 0x20000,
                                    0x12345678, 0xffffffff, 0xfffff000, 0xfffe0000, rng.randrange(-2**31, 2**32)])
                    src.append('li %s, %s' % (anyreg(), v if rng.random() < 0.8 else imm()))
                elif op in ('mv', 'not', 'neg', 'seqz', 'snez', 'sltz', 'sgtz'):
                    src.append('%s %s, %s' % (op, anyreg(), anyreg()))
                elif not label_names and not sloppy and op not in ('jr', 'jalr'):
                    src.append('ret')
                elif op in ('beqz', 'bnez', 'blez', 'bgez', 'bltz', 'bgtz'):
                    src.append('%s %s, %s' % (op, anyreg(), ref(False)))
                elif op in ('bgt', 'ble', 'bgtu', 'bleu'):
                    src.append('%s %s, %s, %s' % (op, anyreg(), anyreg(), ref(False)))
                elif op in ('j', 'jal', 'call', 'tail'):
                    src.append('%s %s' % (op, ref(False)))
                else:
                    src.append('%s %s' % (op, anyreg()))
            elif kind < 0.93:
                name = 'K%d' % len(const_names)
                src.append('%s = %s' % (name, rng.choice(imm_pool + [4, 8, 16, 32])))
                const_names.append(name)
            elif kind < 0.95:
                name = 'REG%d' % len(alias_names)
                src.append('%s = %s' % (name, rng.choice(['sp', 'x8', 'a0', 's1', 'zero', 'ra', 't0', '9', '2',
                                                           str(rng.randrange(0, 34 if sloppy else 32))])))
                alias_names.append(name)
            elif kind < 0.98:
                src.append(rng.choice(['db 1\nalign 2', 'dh 0x1234', 'dw 0xdeadbeef', 'bytes 1 2 3 4', 'shorts 1 2',
                                       'string hi', 'align 4', 'align 8', 'align 2', 'pack <I 5', 'ints 7',
                                       'db 1' if sloppy else 'dh 1']))
            else:
                src.append(rng.choice(['c.addi x8, 1', 'c.nop', 'c.mv x8, x9', 'c.jr ra', 'c.li a0, 5', 'c.lwsp a0, 4',
                                       'c.ebreak', 'c.add a0, a1', 'c.lw a0, 4(a1)', 'c.j 8', 'c.beqz a0, -4']))
        for name in pending:
            src.append(name + ':')
        if rng.random() < 0.5:
            src.append('ret')
        extern = None
        if rng.random() < 0.1:
            extern = {'ghost': rng.choice([0, 64, 256, 2048, 1 << 20, (1 << 21) + 4096])}
        c.lines += len(src)
        c.program('\n'.join(src) + '\n', labels=extern)


# ----------------------------------------------------------------------------

TASKS = [
    (cross_rd_rs1_imm, 'addi'), (cross_rd_rs1_imm, 'lw'), (cross_rd_rs1_imm, 'andi'), (cross_rd_rs1_imm, 'jalr'),
    (cross_offset_syntax,), (cross_branch, 'beq'), (cross_branch, 'bne'),
    (cross_shift, 'slli'), (cross_shift, 'srli'), (cross_shift, 'srai'),
    (cube, 'add'), (cube, 'sub'), (cube, 'xor'), (cube, 'or'), (cube, 'and'),
    (cross_rd_imm,),
    (spell_addi_full,),
    (spell_positions, ALL[0:8]), (spell_positions, ALL[8:16]), (spell_positions, ALL[16:24]),
    (spell_positions, ALL[24:32]),
    (spell_misc,),
    (errors_imm_forms, ('addi', 'lw', 'andi')), (errors_imm_forms, ('jalr', 'sw', 'beq', 'bne')),
    (errors_imm_forms, ('ori', 'sb', 'blt')),
    (errors_reg_forms, ('add', 'sub', 'xor', 'or', 'and')), (errors_reg_forms, ('slli', 'srli', 'srai', 'sll', 'mul')),
    (errors_misc,), (errors_references,),
    (section_pseudo,), (pseudo_branches,),
    (section_constants_aliases,),
    (label_chains,),
] + [(label_operands, part, 4) for part in range(4)] + [(random_programs, 1000, 20260927 + n) for n in range(6)]

QUICK_TASKS = [
    (cross_rd_rs1_imm, 'jalr'), (cube, 'xor'), (cross_rd_imm,), (spell_addi_full,), (spell_misc,),
    (errors_imm_forms, ('addi',)), (errors_misc,), (errors_references,), (random_programs, 1000, 20260927),
    (pseudo_branches,), (pseudo_far,), (label_operands, 0, 10),
]

_worker_checker_args = None


def _worker_init():
    global _worker_checker_args
    old, new = load_both()
    instrument(old)
    instrument(new)
    _worker_checker_args = (old, new)


def _worker_run(index_and_task):
    index, task = index_and_task
    if _worker_checker_args is None:
        _worker_init()
    c = Checker(*_worker_checker_args)
    func, *args = task
    func(c, *args)
    return index, c.export()


def main():
    import argparse
    import multiprocessing

    parser = argparse.ArgumentParser(description=__doc__, formatter_class=argparse.RawDescriptionHelpFormatter)
    parser.add_argument('--quick', action='store_true', help='run a small subset only')
    parser.add_argument('--jobs', type=int, default=min(8, os.cpu_count() or 1), help='worker processes')
    args = parser.parse_args()

    # forked workers inherit the two loaded modules
    global _worker_checker_args
    old, new = load_both()
    instrument(old)
    instrument(new)
    _worker_checker_args = (old, new)
    total = Checker(old, new)

    # sanity check of the harness itself: the comparison must be able to see
    # compression happening and errors being reported
    r = run(old, 'addi x8, x8, 1\n')
    assert r[0] == 'ok' and len(r[1]) == 2 and r[-1][0][1][0][0] == 'CITypeInstruction', r
    r = run(old, 'addi x99, x8, 1\n')
    assert r[0] == 'error' and r[1] == 'AssemblerError', r
    assert run(old, 'addi x8, x8, 1\n') != run(old, 'addi x8, x8, 2\n')

    tasks = list(enumerate(QUICK_TASKS if args.quick else TASKS))
    started = time.time()
    if args.jobs <= 1:
        results = map(_worker_run, tasks)
    else:
        pool = multiprocessing.Pool(args.jobs)
        results = pool.imap_unordered(_worker_run, tasks, chunksize=1)
    collected = {}
    for index, exported in results:
        collected[index] = exported
        for entry in exported['log']:
            print(entry)
        sys.stdout.flush()
    for index in sorted(collected):
        total.merge(collected[index])
    print('wall time: %.1fs' % (time.time() - started))
    return total.report()


if __name__ == '__main__':
    sys.exit(main())
