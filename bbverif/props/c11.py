"""C11 - constants evaluate as integer arithmetic and substitute transparently (structural clauses)."""
import ast

from ..core import Report, Finding, AnalysisError
from ..facts import Facts
from ..astutil import unparse, dotted, walk_no_nested
from ..pathwalk import show, is_const, C, loop_paths
from ..layout import pipeline
from .. import layoutrules as LR, immsites as IS, encprops
from ..encsum import all_summaries, derived_operand
from ..comprel import CompRel
from ..wiring import chain_outcomes
from .c12 import check_representation
from .c08 import check_envs

LEVEL = 'other'


def check_integer_results(rep, facts):
    """R11.1: every value returned by Arithmetic.eval passed the `type(result) != int -> raise` test or is ord(<one char>)."""
    ci = facts.classes.get('Arithmetic')
    if ci is None or 'eval' not in ci.methods:
        raise AnalysisError('anchor vanished: Arithmetic.eval')
    m = ci.methods['eval']
    paths = IS.function_paths(facts, m)
    n = 0
    for p in paths:
        if p.end != 'return':
            continue
        n += 1
        val = [e for e in p.events if e[0] == 'return'][-1]
        v = val[1]
        if v[0] == 'call' and v[1] == 'ord':
            rep.ok('R11.1.integer', 'character literal path returns ord(c)')
            continue
        guarded = False
        for t, pol, node in p.conds:
            # type(result) != int  with polarity False, or type(result) == int / isinstance(result, int) with polarity True
            while t[0] == 'un' and t[1] == 'not':
                t, pol = t[2], not pol
            if t[0] == 'cmp' and t[2] == ('call', 'type', (v,), ()) and t[3] == ('name', 'int'):
                if (t[1] in ('!=', 'is not') and pol is False) or (t[1] in ('==', 'is') and pol is True):
                    guarded = True
        rep.check(guarded, 'R11.1.integer', 'evaluated result is returned only after the exact-int test',
                  lambda val=val: Finding('R11.1.integer', 'Arithmetic.eval', val[2],
                                          'a result of eval() is returned without having passed `type(result) != int -> error`: bool / float / str results become immediates', line=val[2].lineno))
    rep.analysed['Arithmetic.eval return paths'] = n
    evals = [x for x in ast.walk(m) if isinstance(x, ast.Call) and dotted(x.func) == 'eval']
    for e in evals:
        g = e.args[1] if len(e.args) > 1 else None
        ok = isinstance(g, ast.Dict) and any(isinstance(k, ast.Constant) and k.value == '__builtins__' and isinstance(v, ast.Constant) and v.value is None
                                             for k, v in zip(g.keys, g.values))
        rep.check(ok and len(e.args) == 3 and unparse(e.args[0]) == 'self.expr', 'R11.1.sandbox', 'eval(self.expr, {__builtins__: None}, env)',
                  lambda e=e: Finding('R11.1.sandbox', 'Arithmetic.eval', e, 'the expression is not evaluated with builtins pinned off and the given environment as namespace', line=e.lineno))


def check_constants_pass(rep, facts):
    """R11.2: constants are evaluated in definition order, earlier constants visible, result stored under the constant's name."""
    pa = LR.pass_analysis(facts, 'resolve_constants')
    item = pa.item
    n = 0
    for r in pa.rows:
        p = r['path']
        f = p.facts.get(item)
        if not f or 'Constant' not in f['isa'] or p.end == 'raise':
            continue
        n += 1
        evs = [e for e in p.events if e[0] == 'value' and e[1][0] == 'mcall' and e[1][2] == 'eval']
        sets = [e for e in p.events if e[0] == 'setitem' and e[1] == ('name', 'constants')]
        ok = len(evs) == 1 and len(sets) == 1 and sets[0][2] == ('attr', item, 'name') and sets[0][3] == evs[0][1] \
            and evs[0][1][1] == ('attr', item, 'expr')
        env = evs[0][1][3][1] if evs else None
        env_ok = env is not None and env[0] == 'call' and env[1] == 'ChainMap' and env[2] and env[2][0] == ('name', 'constants')
        rep.check(ok and env_ok, 'R11.2.sequential', 'constants[name] = expr.eval(env over the constants defined so far)',
                  lambda p=p: Finding('R11.2.sequential', 'resolve_constants', sets[0][4] if sets else pa.loop,
                                      'a constant is not stored as the value of its own expression evaluated over the constants defined before it', line=pa.loop.lineno))
        drops = not r['app_values']
        rep.check(drops, 'R11.2.sequential', 'the constant item itself emits nothing',
                  lambda: Finding('R11.2.sequential', 'resolve_constants', pa.loop, 'constant definitions are kept as items', line=pa.loop.lineno), nontrivial=False)
    rep.analysed['constant definition paths'] = n
    raises = [r for r in pa.rows if r['path'].end == 'raise']
    texts = ' '.join(show(t) for r in raises for t, pol, _ in r['path'].conds if pol)
    rep.check('REGISTERS' in texts, 'R11.2.names', 'a constant may not shadow a register name',
              lambda: Finding('R11.2.names', 'resolve_constants', pa.loop, 'constant names that shadow registers are no longer refused: `t0 = 5` would change what `t0` means', line=pa.loop.lineno))
    rep.check('is_int' in texts, 'R11.2.names', 'a constant may not be named like a number',
              lambda: Finding('R11.2.names', 'resolve_constants', pa.loop, 'numeric constant names are no longer refused', line=pa.loop.lineno), nontrivial=False)
    # ordering: constants are final before anything reads them
    order = [n_ for n_, g, node, a, t in pipeline(facts)]
    rep.check('resolve_constants' in order and order.index('resolve_constants') < min(order.index(x) for x in order if x in ('resolve_labels', 'resolve_register_aliases')),
              'R11.2.order', 'constants are resolved before labels and register aliases',
              lambda: Finding('R11.2.order', 'assemble', 'pipeline', 'constants are not resolved first', line=facts.funcs['assemble'].lineno), nontrivial=False)


def check_aliases(rep, facts):
    """R11.3: register aliases are substituted before every consumer of register fields, in exactly the register fields,
    by a positional rebuild that preserves every other field."""
    order = [(n, g) for n, g, node, a, t in pipeline(facts)]
    names = [n for n, g in order]
    alias_idx = [i for i, n in enumerate(names) if n == 'resolve_register_aliases']
    creators = [i for i, n in enumerate(names) if n in ('transform_pseudo_instructions',)]
    consumers = [i for i, n in enumerate(names) if n in ('transform_compressible', 'resolve_instructions')]
    fn = facts.funcs['assemble']
    for c in consumers:
        prior = [a for a in alias_idx if a < c]
        made = [m for m in creators if m < c]
        ok = bool(prior) and (not made or max(prior) > max(made))
        rep.check(ok, 'R11.3.order', '{} (step {}) sees alias-resolved registers'.format(names[c], c),
                  lambda c=c: Finding('R11.3.order', 'assemble', 'pipeline', '{} runs on items whose register fields may still be constant names'.format(names[c]), line=fn.lineno))
    # REGS covers every register-kinded attribute of every instruction class
    ra = facts.funcs.get('resolve_register_aliases')
    regs = None
    for n in ast.walk(ra):
        if isinstance(n, ast.Assign) and isinstance(n.value, ast.Set):
            try:
                regs = {e.value for e in n.value.elts}
                regs_node = n
            except AttributeError:
                pass
    if regs is None:
        raise AnalysisError('resolve_register_aliases: no literal set of register field names')
    cls_tables, _ = encprops.class_tables(facts)
    tables = facts.instruction_tables()
    sums = all_summaries(facts)
    needed = set()
    for cls, tnames in cls_tables.items():
        if cls == 'PseudoInstruction' or cls not in facts.classes:
            continue
        attrs = facts.args_attrs(cls) or []
        for t in tnames:
            for m in tables.get(t, {}):
                s = sums[m]
                for attr, p in zip(attrs, s.params):
                    info = derived_operand(s, p)
                    if info is not None and info['kind'] == 'reg':
                        needed.add(attr)
    rep.check(needed <= regs, 'R11.3.fields', 'alias substitution covers every register-kinded field {}'.format(sorted(needed)),
              lambda: Finding('R11.3.fields', 'resolve_register_aliases', regs_node,
                              'register fields {} are never alias-resolved: a constant naming a register is rejected there'.format(sorted(needed - regs)), line=regs_node.lineno))
    extra = regs - needed
    rep.check(not (extra & {'imm', 'name', 'line'}), 'R11.3.fields', 'alias substitution touches register fields only',
              lambda: Finding('R11.3.fields', 'resolve_register_aliases', regs_node, 'non-register fields {} are rewritten by alias resolution'.format(sorted(extra)), line=regs_node.lineno), nontrivial=False)
    # the rewrite: value replaced by constants[value] under `value in constants`, key restricted to REGS, positional rebuild
    src = unparse(ra)
    pa = LR.pass_analysis(facts, 'resolve_register_aliases')
    rebuilt = 0
    for r in pa.rows:
        for val, node in r['app_values']:
            if val[0] == 'mcall' and val[2] == '__class__':
                rebuilt += 1
                ok = val[1] == pa.item and len(val[3]) == 1 and val[3][0][0] == 'star'
                rep.check(ok, 'R11.3.rebuild', 'rebuilt as item.__class__(*fields) (all other fields preserved, see rebuild invariant)',
                          lambda node=node: Finding('R11.3.rebuild', 'resolve_register_aliases', node, 'the item is not rebuilt positionally from its own fields', line=node.lineno), nontrivial=False)
    rep.check(rebuilt >= 1, 'R11.3.rebuild', 'an alias-resolved item is rebuilt',
              lambda: Finding('R11.3.rebuild', 'resolve_register_aliases', ra, 'items with aliases are no longer rebuilt with the resolved registers', line=ra.lineno))
    # how does the pass decide that a field names a constant?  Membership in `constants` (or `.get(...) is None`); a bare
    # truthiness test of the looked-up value is wrong because 0 (x0, shift amount 0) is a legal constant value
    looked = set()
    for n in ast.walk(ra):
        if isinstance(n, ast.Assign) and isinstance(n.targets[0], ast.Name):
            v = n.value
            if (isinstance(v, ast.Subscript) and isinstance(v.value, ast.Name) and v.value.id == 'constants') or \
                    (isinstance(v, ast.Call) and isinstance(v.func, ast.Attribute) and v.func.attr == 'get' and isinstance(v.func.value, ast.Name) and v.func.value.id == 'constants'):
                looked.add(n.targets[0].id)
    uses_lookup = bool(looked) or any(isinstance(n, ast.Subscript) and isinstance(n.value, ast.Name) and n.value.id == 'constants' for n in ast.walk(ra))
    member = [n for n in ast.walk(ra) if isinstance(n, ast.Compare) and len(n.ops) == 1 and isinstance(n.ops[0], (ast.NotIn, ast.In)) and unparse(n.comparators[0]) == 'constants']
    none_tests = [n for n in ast.walk(ra) if isinstance(n, ast.Compare) and len(n.ops) == 1 and isinstance(n.ops[0], (ast.Is, ast.IsNot))
                  and isinstance(n.left, ast.Name) and n.left.id in looked and isinstance(n.comparators[0], ast.Constant) and n.comparators[0].value is None]
    truthy = []
    for n in ast.walk(ra):
        tests = []
        if isinstance(n, (ast.If, ast.While, ast.IfExp)):
            tests.append(n.test)
        for t in tests:
            for x in ast.walk(t):
                if isinstance(x, ast.Name) and x.id in looked:
                    par = getattr(x, '_parent', None)
                    if not (isinstance(par, ast.Compare)):
                        truthy.append(n)
    keyg = [n for n in ast.walk(ra) if isinstance(n, ast.Compare) and len(n.ops) == 1 and isinstance(n.ops[0], (ast.NotIn, ast.In)) and isinstance(n.comparators[0], ast.Name)
            and n.comparators[0].id not in ('constants',) and isinstance(n.left, ast.Name)]
    for t in truthy:
        rep.fail(Finding('R11.3.lookup', 'resolve_register_aliases', t,
                         'whether a register field names a constant is decided by the truthiness of the looked-up value: a constant equal to 0 (an alias of x0, a zero shift amount) is '
                         'treated as "not a constant" and left unsubstituted', line=t.lineno))
    rep.check(uses_lookup and (bool(member) or bool(none_tests)) and bool(keyg), 'R11.3.lookup', 'a register field that names a constant is replaced by constants[name], others untouched',
              lambda: Finding('R11.3.lookup', 'resolve_register_aliases', ra, 'alias resolution no longer replaces exactly the register fields that name a constant', line=ra.lineno))
    encprops.check_rebuild_invariant(rep, facts, 'R11.3.rebuild-invariant')


def check_modifiers(rep, facts):
    """R11.5: a constant inside %hi / %lo / %position reaches the same Arithmetic.eval."""
    arms, els = chain_outcomes(facts, 'parse_immediate', 'imm')
    ok_base = any(o.kind == 'return' and o.cls == 'Arithmetic' for o in els)
    fn = facts.funcs['parse_immediate']
    rep.check(ok_base, 'R11.5.modifiers', 'a plain immediate becomes Arithmetic(text)',
              lambda: Finding('R11.5.modifiers', 'parse_immediate', fn, 'plain immediates are not parsed into Arithmetic', line=fn.lineno))
    for key, test, outs in arms:
        if key[0] != 'head':
            continue
        for o in outs:
            if o.kind != 'return':
                continue
            if key[1] in ('%hi', '%lo'):
                ok = len(o.args) == 1 and o.args[0][0] == 'imm'
            elif key[1] == '%position':
                ok = len(o.args) == 2 and o.args[1][0] == 'call' and o.args[1][1] == 'Arithmetic'
            else:
                continue
            rep.check(ok, 'R11.5.modifiers', '{}: inner expression parsed recursively / as Arithmetic'.format(key[1]),
                      lambda o=o, key=key: Finding('R11.5.modifiers', 'parse_immediate', o.node, 'the expression inside {} is not evaluated like any other expression'.format(key[1]), line=o.node.lineno),
                      nontrivial=False)
    for cls in ('Hi', 'Lo', 'Position'):
        m = facts.classes[cls].methods.get('eval')
        inner = [n for n in ast.walk(m) if isinstance(n, ast.Call) and isinstance(n.func, ast.Attribute) and n.func.attr == 'eval' and unparse(n.func.value) == 'self.expr']
        params = [a.arg for a in m.args.args][1:]
        ok = bool(inner) and all([unparse(a) for a in c.args] == params for c in inner)
        rep.check(ok, 'R11.5.modifiers', '{}.eval evaluates its inner expression in the same environment'.format(cls),
                  lambda cls=cls, m=m: Finding('R11.5.modifiers', cls + '.eval', m, '{} does not evaluate its inner expression with the position / environment / line it was given'.format(cls), line=m.lineno),
                  nontrivial=False)


def run(repo, tier):
    facts = Facts(repo.asm)
    rep = Report('C11', LEVEL,
                 'Structural clauses of constant evaluation and substitution: every value returned by Arithmetic.eval passed the exact-int '
                 'test (or is ord of a character literal) and eval runs with builtins pinned off; constants are evaluated in definition order '
                 'over ChainMap(constants, REGISTERS) and stored under their own name, shadowing of registers refused; register aliases are '
                 'resolved before every consumer of register fields, in exactly the register-kinded fields (derived from the encoder '
                 'summaries), by a positional rebuild under the rebuild invariant; a register field moved into an immediate on the -c path '
                 'keeps representation and environment; constants inside %hi/%lo/%position reach the same evaluator.')
    rep.trusted_base = ['CPython ast', 'Python eval() arithmetic on int literals and operators', 'bbverif.pathwalk / bitdom / comprel']
    rep.not_decided = ['the arithmetic itself (precedence, //, %, ~, shifts): delegated to Python eval, trusted',
                       'the effect of the tokenizer on expression text: splitting on whitespace/commas and paren padding is transparent for numbers and operators but not for '
                       'character literals (\',\' evaluates to 32; \'#\', \'(\', \')\' are refused): value semantics of regex/string processing on particular inputs']
    check_integer_results(rep, facts)
    check_constants_pass(rep, facts)
    check_envs(rep, facts, 'R11.2.env')
    check_aliases(rep, facts)
    rel = CompRel(facts)
    check_representation(rep, facts, rel, 'R11.4')
    check_modifiers(rep, facts)
    rep.floor('Arithmetic.eval return paths', 2)
    rep.floor('constant definition paths', 1)
    rep.floor('label environments', 5)
    rep.floor('constructor arguments classified', 40)
    return rep
