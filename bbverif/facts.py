"""Program model of bronzebeard/asm.py lifted from the syntax tree (never imported, never executed)."""
import ast

from .core import AnalysisError
from .astutil import fold, try_fold, NotConstant, dotted, unparse


_MISSING = object()
_MUTATORS = {'setdefault', 'update', 'pop', 'popitem', 'clear', '__setitem__', '__delitem__', 'append', 'extend', 'insert', 'remove',
             'sort', 'reverse', 'add', 'discard', 'difference_update', 'intersection_update', 'symmetric_difference_update'}


def _const_node(v):
    """AST of a folded value (ints, strings, None, booleans, tuples / lists of those), or None."""
    if v is None or isinstance(v, (int, str, bytes, bool)):
        return ast.Constant(value=v)
    if isinstance(v, (tuple, list)):
        elts = [_const_node(x) for x in v]
        if any(e is None for e in elts):
            return None
        return ast.Tuple(elts=elts, ctx=ast.Load()) if isinstance(v, tuple) else ast.List(elts=elts, ctx=ast.Load())
    return None


def _substitute(node, env):
    """Copy of a statement with the loop variables replaced by the element expressions (parent links not followed)."""
    class Subst(ast.NodeTransformer):
        def visit_Name(self_inner, n):
            if n.id in env and isinstance(n.ctx, ast.Load):
                return _strip_parents(env[n.id])
            return n
    out = Subst().visit(_strip_parents(node))
    ast.copy_location(out, node)
    ast.fix_missing_locations(out)
    return out


def _strip_parents(node):
    """Copy of an expression without the parent links core.Repo puts on the analysed tree (deepcopy would follow them)."""
    new = node.__class__()
    for k, v in node.__dict__.items():
        if k == '_parent':
            continue
        if isinstance(v, ast.AST):
            v = _strip_parents(v)
        elif isinstance(v, list):
            v = [_strip_parents(x) if isinstance(x, ast.AST) else x for x in v]
        setattr(new, k, v)
    return new


class GuardedDict(dict):
    """Folded module-level values by name.  A name whose construction the program model could not follow (a table filled by a
    loop it does not unroll, an `update` from something that is not folded, a rebinding inside `if` / `try`) is *poisoned*: it is
    absent from the dict and every lookup of it raises AnalysisError, so that no rule can mistake "not folded" for "not there"."""

    def __init__(self, poison):
        super().__init__()
        self.poison = poison

    def _check(self, key):
        try:
            why = self.poison.get(key)
        except TypeError:
            return
        if why is not None:
            raise AnalysisError('module-level name {} is built in a way the program model does not follow ({})'.format(key, why))

    def __getitem__(self, key):
        self._check(key)
        return dict.__getitem__(self, key)

    def get(self, key, default=None):
        self._check(key)
        return dict.get(self, key, default)

    def __contains__(self, key):
        self._check(key)
        return dict.__contains__(self, key)


class Closure:
    """NAME = factory(args...) at module level (constraint closures)."""

    def __init__(self, name, factory, args, node):
        self.name, self.factory, self.args, self.node = name, factory, args, node

    def __repr__(self):
        return '{}({})'.format(self.factory, ', '.join(repr(a) for a in self.args))


class Partial:
    """NAME = partial(func, k=v, ...) at module level."""

    def __init__(self, name, func, kwargs, node):
        self.name, self.func, self.kwargs, self.node = name, func, kwargs, node

    def __repr__(self):
        return 'partial({}, {})'.format(self.func, self.kwargs)


class ClassInfo:
    def __init__(self, node):
        self.node = node
        self.name = node.name
        self.bases = [dotted(b) for b in node.bases]
        self.methods = {st.name: st for st in node.body if isinstance(st, ast.FunctionDef)}
        self.init_params = None   # [(name, default_node_or_None)] without self
        self.init_vararg = None
        self.attr_order = None    # [(attr, param_name or None)] in assignment order incl. super().__init__ attrs
        self.args_attrs = None    # attrs returned by args()


class Facts:
    def __init__(self, tree, relpath='bronzebeard/asm.py'):
        self.tree = tree
        self.relpath = relpath
        self.poison = {}        # module-level name -> why its value is not folded (see GuardedDict)
        self.consts = GuardedDict(self.poison)
        self.funcs = {}
        self.classes = {}
        self.closures = {}
        self.partials = GuardedDict(self.poison)
        self.tables = GuardedDict(self.poison)        # dict-of-names tables
        self.table_nodes = {}
        self.sets = GuardedDict(self.poison)
        self.assign_nodes = {}
        self.modelled_stmts = set()     # id() of the module-level statements that write a container and were folded into the model
        self._collect()

    # ------------------------------------------------------------------------------------------
    def _collect(self):
        for st in self.tree.body:
            self._module_stmt(st, st)
        self._function_writes()
        for ci in self.classes.values():
            self._class_details(ci)

    def _function_writes(self):
        """A folded table that a function of the module writes (a registration helper called at import time, a cache) is not what
        the model folded from the module-level statements: recorded in function_written, and the rules that read a table as *the*
        content (mnemonic tables, register table) ask require_static() first.  The one benign form `T.setdefault(k, T[...])` (more
        keys, same values) is not recorded (the encoder interpreter treats it as an extended table)."""
        self.function_written = {}
        def local_names(fn):
            a = fn.args
            names = {x.arg for x in a.args + a.kwonlyargs + getattr(a, 'posonlyargs', [])}
            if a.vararg:
                names.add(a.vararg.arg)
            if a.kwarg:
                names.add(a.kwarg.arg)
            if isinstance(fn, ast.Lambda):
                return names
            declared = {n_ for n in ast.walk(fn) if isinstance(n, (ast.Global, ast.Nonlocal)) for n_ in n.names}
            for n in ast.walk(fn):
                if isinstance(n, ast.Name) and isinstance(n.ctx, ast.Store) and n.id not in declared:
                    names.add(n.id)
            return names

        def visit(node, shadow):
            for child in ast.iter_child_nodes(node):
                if isinstance(child, (ast.FunctionDef, ast.AsyncFunctionDef, ast.Lambda)):
                    inner = shadow | local_names(child)
                    for n in ast.walk(child):
                        name, why = None, None
                        if isinstance(n, ast.Call) and isinstance(n.func, ast.Attribute) and isinstance(n.func.value, ast.Name) \
                                and n.func.attr in _MUTATORS:
                            name = n.func.value.id
                            benign = (n.func.attr == 'setdefault' and len(n.args) == 2 and not n.keywords and isinstance(n.args[1], ast.Subscript)
                                      and isinstance(n.args[1].value, ast.Name) and n.args[1].value.id == name)
                            if benign:
                                name = None
                        elif isinstance(n, ast.Subscript) and isinstance(n.ctx, (ast.Store, ast.Del)) and isinstance(n.value, ast.Name):
                            name = n.value.id
                        elif isinstance(n, ast.Global):
                            for g in n.names:
                                if self._known(g):
                                    self.function_written.setdefault(g, getattr(child, 'name', '<lambda>'))
                        if name is not None and name not in inner and self._known(name) and \
                                (dict.__contains__(self.tables, name) or dict.__contains__(self.sets, name)):
                            self.function_written.setdefault(name, getattr(child, 'name', '<lambda>'))
                elif not isinstance(child, ast.ClassDef):
                    visit(child, shadow)
                else:
                    visit(child, shadow)
        visit(self.tree, set())

    # -- module-level statements ---------------------------------------------------------------------------------------------
    def taint(self, name, why):
        """The value of a module-level name is not what the folded model says: forget it, refuse every later lookup."""
        if name in self.poison:
            return
        self.poison[name] = why
        for d in (self.consts, self.tables, self.sets, self.partials):
            dict.pop(d, name, None)
        self.closures.pop(name, None)

    def _known(self, name):
        return any(dict.__contains__(d, name) for d in (self.consts, self.tables, self.sets, self.partials)) or name in self.closures

    def _written_names(self, st):
        """Module-level names a statement may bind or mutate (nested function / class bodies excluded)."""
        out = []
        todo = [st]
        while todo:
            n = todo.pop()
            if isinstance(n, (ast.FunctionDef, ast.AsyncFunctionDef, ast.ClassDef, ast.Lambda)) and n is not st:
                continue
            if isinstance(n, ast.Name) and isinstance(n.ctx, (ast.Store, ast.Del)):
                out.append(n.id)
            elif isinstance(n, (ast.Subscript, ast.Attribute)) and isinstance(n.ctx, (ast.Store, ast.Del)) and isinstance(n.value, ast.Name):
                out.append(n.value.id)
            elif isinstance(n, ast.Call) and isinstance(n.func, ast.Attribute) and isinstance(n.func.value, ast.Name) \
                    and n.func.attr in _MUTATORS:
                out.append(n.func.value.id)
            todo.extend(ast.iter_child_nodes(n))
        return out

    def _taint_stmt(self, st, why):
        for name in self._written_names(st):
            self.taint(name, why)

    def _module_stmt(self, st, top):
        """One statement of the module body (`top` is the statement of the real tree it stands for: loop bodies are unrolled on
        copies)."""
        if isinstance(st, ast.FunctionDef):
            self.funcs[st.name] = st
        elif isinstance(st, ast.ClassDef):
            self.classes[st.name] = ClassInfo(st)
        elif isinstance(st, ast.Assign) and len(st.targets) == 1 and isinstance(st.targets[0], ast.Name):
            if st.targets[0].id in self.poison:
                return
            self._assign(st.targets[0].id, st.value, st)
        elif isinstance(st, ast.Assign) and len(st.targets) == 1 and isinstance(st.targets[0], ast.Subscript) \
                and isinstance(st.targets[0].value, ast.Name):
            self._module_setitem(st, top)
        elif isinstance(st, ast.Assign) and all(isinstance(t, ast.Name) for t in st.targets) and not any(t.id in self.poison for t in st.targets):
            # A = B = <value>
            for t in st.targets:
                self._assign(t.id, st.value, st)
        elif (isinstance(st, ast.Assign) and len(st.targets) == 1 and isinstance(st.targets[0], (ast.Tuple, ast.List))
              and all(isinstance(e, ast.Name) for e in st.targets[0].elts) and not any(e.id in self.poison or self._known(e.id) for e in st.targets[0].elts)):
            # A, B, C = <sequence of constants> (a tuple display, range(n), ...): one constant per name
            names = [e.id for e in st.targets[0].elts]
            vals = try_fold(st.value, self.consts)
            if isinstance(st.value, (ast.Tuple, ast.List)) and len(st.value.elts) == len(names) and not any(isinstance(e, ast.Starred) for e in st.value.elts):
                for n_, e in zip(names, st.value.elts):
                    self._assign(n_, e, st)
            elif isinstance(vals, (list, tuple)) and len(vals) == len(names):
                for n_, v_ in zip(names, vals):
                    self.assign_nodes[n_] = st
                    self.consts[n_] = v_
            else:
                for n_ in names:
                    self.assign_nodes[n_] = st
        elif isinstance(st, ast.Expr) and isinstance(st.value, ast.Call):
            self._module_call(st.value, top)
        elif isinstance(st, ast.For):
            self._module_for(st, top)
        elif isinstance(st, ast.AugAssign) and isinstance(st.target, ast.Name):
            self._module_augassign(st, top)
        elif isinstance(st, ast.Delete):
            self._module_delete(st, top)
        elif isinstance(st, (ast.Import, ast.ImportFrom, ast.Pass, ast.AsyncFunctionDef)) or \
                (isinstance(st, ast.Expr) and isinstance(st.value, ast.Constant)):
            pass
        elif isinstance(st, ast.Assign):
            # tuple targets, chained targets, attribute stores: names bound here that the model already holds are no longer known
            for name in self._written_names(st):
                if self._known(name):
                    self.taint(name, 'rebound / written by `{}`'.format(unparse(st).split('\n')[0][:60]))
        else:
            self._taint_stmt(st, 'written inside a module-level `{}` statement'.format(type(st).__name__.lower()))

    def _table_of_expr(self, node):
        """{key: binding name or constant} denoted by an expression used as a table: a folded table, a dict display (values: names of
        bindings, inline `partial(...)` bindings, constants; `**OTHER` splats), `dict(...)` of those; None when not understood."""
        if isinstance(node, ast.Name):
            if node.id not in self.poison and node.id in self.tables:
                return dict(self.tables[node.id])
            return None
        if any(isinstance(n, ast.Name) and n.id in self.poison for n in ast.walk(node)):
            return None
        try:
            v = fold(node, self.consts)
            return dict(v) if isinstance(v, dict) else None
        except NotConstant:
            pass
        pairs = None
        if isinstance(node, ast.Dict):
            pairs = list(zip(node.keys, node.values))
        elif isinstance(node, ast.Call) and isinstance(node.func, ast.Name) and node.func.id == 'dict' and 'dict' not in self.funcs \
                and len(node.args) <= 1:
            pairs = [(None, a) for a in node.args] + [(ast.Constant(value=k.arg) if k.arg is not None else None, k.value) for k in node.keywords]
        if pairs is None:
            return None
        out = {}
        kinds = set()           # a table holds binding names or folded constants, never both (a name is kept as a string)
        for k, v in pairs:
            if k is None:
                sub = self._table_of_expr(v)
                if sub is None:
                    return None
                out.update(sub)
                continue
            kk = try_fold(k, self.consts)
            if kk is None:
                return None
            try:
                hash(kk)
            except TypeError:
                return None
            if isinstance(v, ast.Name) and v.id in self.poison:
                return None
            if isinstance(v, ast.Name) and (v.id in self.partials or v.id in self.funcs or v.id in self.closures or v.id in self.classes
                                            or not self._known(v.id)):
                out[kk] = v.id
                kinds.add('name')
                continue
            try:
                out[kk] = fold(v, self.consts)
                kinds.add('const')
                continue
            except NotConstant:
                pass
            if isinstance(v, ast.Call):
                # an inline binding: {'add': partial(r_type, ...)} is the table {'add': <anonymous binding>}
                anon = '<{}>'.format(unparse(k))
                n = 0
                while dict.__contains__(self.partials, anon + ('#%d' % n if n else '')):
                    n += 1
                anon += '#%d' % n if n else ''
                if self._partial_binding(anon, v, v) is not None:
                    out[kk] = anon
                    kinds.add('name')
                    continue
            return None
        if len(kinds) > 1:
            return None
        return out

    def _members_of_expr(self, arg):
        """set of members an expression contributes to a set: a folded set / table name, TABLE.keys(), a folded collection; None"""
        if isinstance(arg, ast.Name) and arg.id not in self.poison and arg.id in self.sets:
            return set(self.sets[arg.id])
        if isinstance(arg, ast.Name) and arg.id not in self.poison and arg.id in self.tables:
            return set(self.tables[arg.id])
        if (isinstance(arg, ast.Call) and isinstance(arg.func, ast.Attribute) and arg.func.attr == 'keys' and not arg.args
                and isinstance(arg.func.value, ast.Name) and arg.func.value.id not in self.poison and arg.func.value.id in self.tables):
            return set(self.tables[arg.func.value.id].keys())
        if any(isinstance(n, ast.Name) and n.id in self.poison for n in ast.walk(arg)):
            return None
        v = try_fold(arg, self.consts)
        if isinstance(v, (set, frozenset, list, tuple, dict)):
            try:
                return set(v)
            except TypeError:
                return None
        return None

    def _module_augassign(self, st, top):
        """T |= {...} / S |= {...} / S -= {...} at module level."""
        name = st.target.id
        if name in self.poison or not self._known(name):
            return
        why = 'written by `{}`'.format(unparse(st).split('\n')[0][:70])
        if isinstance(st.op, ast.BitOr) and dict.__contains__(self.tables, name):
            sub = self._table_of_expr(st.value)
            if sub is not None:
                merged = dict(self.tables[name])
                merged.update(sub)
                self.tables[name] = merged
                self.consts[name] = merged
                self.modelled_stmts.add(id(top))
                return
        elif isinstance(st.op, (ast.BitOr, ast.Sub, ast.BitAnd)) and dict.__contains__(self.sets, name):
            other = self._members_of_expr(st.value)
            if other is not None:
                cur = set(self.sets[name])
                cur = cur | other if isinstance(st.op, ast.BitOr) else (cur - other if isinstance(st.op, ast.Sub) else cur & other)
                self.sets[name] = cur
                self.consts[name] = cur
                self.modelled_stmts.add(id(top))
                return
        elif dict.__contains__(self.consts, name) and not dict.__contains__(self.tables, name) and not dict.__contains__(self.sets, name):
            try:
                v = fold(ast.BinOp(left=ast.Name(id=name, ctx=ast.Load()), op=st.op, right=st.value), self.consts)
                self.consts[name] = v
                return
            except NotConstant:
                pass
        self.taint(name, why)

    def _module_delete(self, st, top):
        """del T[k] at module level (a deleted plain name is simply gone)."""
        for t in st.targets:
            if isinstance(t, ast.Subscript) and isinstance(t.value, ast.Name):
                name = t.value.id
                if name in self.poison or not self._known(name):
                    continue
                k_ = try_fold(t.slice, self.consts, default=_MISSING) if not isinstance(t.slice, ast.Slice) else _MISSING
                if dict.__contains__(self.tables, name) and k_ is not _MISSING and k_ in self.tables[name]:
                    merged = dict(self.tables[name])
                    del merged[k_]
                    self.tables[name] = merged
                    self.consts[name] = merged
                    self.modelled_stmts.add(id(top))
                else:
                    self.taint(name, 'written by `{}`'.format(unparse(st)[:60]))
            elif isinstance(t, ast.Name):
                if self._known(t.id):
                    self.taint(t.id, 'deleted at module level')
            else:
                self._taint_stmt(st, 'written by `{}`'.format(unparse(st)[:60]))

    def _module_setitem(self, st, top):
        """T[k] = v at module level."""
        tgt = st.targets[0]
        name = tgt.value.id
        if name in self.poison or not self._known(name):
            return
        if dict.__contains__(self.tables, name) and not isinstance(tgt.slice, ast.Slice):
            one = self._table_of_expr(ast.Dict(keys=[tgt.slice], values=[st.value]))
            if one is not None:
                self.tables[name] = dict(self.tables[name])
                self.tables[name].update(one)
                if dict.__contains__(self.consts, name):
                    self.consts[name] = self.tables[name]
                self.modelled_stmts.add(id(top))
                return
        self.taint(name, 'written by `{}`'.format(unparse(st).split('\n')[0][:60]))

    def _module_for(self, st, top):
        """`for x in <literal sequence>: <simple statements>` at module level is unrolled (table registration loops)."""
        why = 'written inside a module-level loop that is not unrolled'
        simple = (not st.orelse and all(isinstance(b, (ast.Assign, ast.AugAssign, ast.Delete, ast.Expr, ast.Pass)) for b in st.body)
                  and not any(isinstance(n, (ast.Yield, ast.YieldFrom, ast.Await, ast.NamedExpr)) for b in st.body for n in ast.walk(b)))
        elems = None
        if simple:
            if isinstance(st.iter, (ast.Tuple, ast.List)) and not any(isinstance(e, ast.Starred) for e in st.iter.elts):
                elems = list(st.iter.elts)
            else:
                try:
                    v = fold(st.iter, self.consts)
                    if isinstance(v, dict):
                        v = list(v)
                    if isinstance(v, (list, tuple)) and len(v) <= 4096:
                        elems = [_const_node(x) for x in v]
                        if any(e is None for e in elems):
                            elems = None
                except NotConstant:
                    elems = None
        names = None
        if elems is not None:
            if isinstance(st.target, ast.Name):
                names = [st.target.id]
            elif isinstance(st.target, (ast.Tuple, ast.List)) and all(isinstance(e, ast.Name) for e in st.target.elts):
                names = [e.id for e in st.target.elts]
        if names is None:
            self._taint_stmt(st, why)
            return
        for el in elems:
            if isinstance(st.target, ast.Name):
                env = {names[0]: el}
            else:
                if not isinstance(el, (ast.Tuple, ast.List)) or len(el.elts) != len(names):
                    self._taint_stmt(st, why)
                    return
                env = dict(zip(names, el.elts))
            for b in st.body:
                self._module_stmt(_substitute(b, env), top)
        for name in names:
            if self._known(name):
                self.taint(name, 'rebound by a module-level loop')

    def _module_update(self, tgt, call, top):
        """T.update(...) for a folded dict table T; returns True when folded."""
        srcs = list(call.args) + [ast.Dict(keys=[ast.Constant(value=k.arg) if k.arg is not None else None for k in call.keywords],
                                           values=[k.value for k in call.keywords])] if call.keywords else list(call.args)
        if len(call.args) > 1:
            return False
        merged = dict(self.tables[tgt])
        names = []
        for a in srcs:
            sub = self._table_of_expr(a)
            if sub is None:
                return False
            merged.update(sub)
            if isinstance(a, ast.Name):
                names.append(a.id)
        self.tables[tgt] = merged
        self.consts[tgt] = merged
        self.table_update_order = getattr(self, 'table_update_order', {})
        self.table_update_order.setdefault(tgt, []).extend(names)
        self.modelled_stmts.add(id(top))
        return True

    def _assign(self, name, value, st):
        """NAME = <value> at module level.  A name the model already holds that is bound again is replaced - or, when the new value
        is not folded, poisoned (the old value is no longer the content)."""
        had = self._known(name)
        if had:
            for d in (self.consts, self.tables, self.sets, self.partials):
                dict.pop(d, name, None)
            self.closures.pop(name, None)
        if not self._assign_value(name, value, st) and had:
            self.taint(name, 'rebound to a value that is not folded')

    def _assign_value(self, name, value, st):
        self.assign_nodes[name] = st
        try:
            v = fold(value, self.consts)
            if isinstance(v, dict):
                self.tables[name] = v
                self.table_nodes[name] = st
            elif isinstance(v, set):
                self.sets[name] = v
            self.consts[name] = v
            return True
        except NotConstant:
            pass
        if isinstance(value, ast.Call):
            if self._partial_binding(name, value, st) is not None:
                return True
            if isinstance(value.func, ast.Name) and value.func.id in self.funcs and not value.keywords:
                try:
                    args = [fold(a, self.consts) for a in value.args]
                except NotConstant:
                    return False
                self.closures[name] = Closure(name, value.func.id, args, st)
                return True
        if isinstance(value, ast.Dict) or (isinstance(value, ast.Call) and isinstance(value.func, ast.Name) and value.func.id == 'dict'
                                           and 'dict' not in self.funcs):
            # dict whose values are names of bindings (mnemonic tables), possibly merged from other tables (`**T`)
            tbl = self._table_of_expr(value)
            if tbl is None:
                return False
            self.tables[name] = tbl
            self.table_nodes[name] = st
            splats = [v.id for k, v in zip(value.keys, value.values) if k is None and isinstance(v, ast.Name)] \
                if isinstance(value, ast.Dict) else [a.id for a in value.args if isinstance(a, ast.Name)]
            if splats:
                self.table_update_order = getattr(self, 'table_update_order', {})
                self.table_update_order.setdefault(name, []).extend(splats)
            return True
        return False

    def _partial_binding(self, name, value, st):
        """NAME = partial(func, k=v, ...) (directly, or through a factory whose body is `return partial(...)`): registers and returns
        the Partial, None when the call is something else."""
        expanded = self._factory_result(value)
        if expanded is not None:
            # NAME = factory(...) where the factory's body is `return partial(...)`: the binding is that partial with the
            # factory's parameters replaced by the call's arguments
            value = expanded
        fn = dotted(value.func)
        if not (fn in ('partial', 'functools.partial') and value.args and isinstance(value.args[0], ast.Name)):
            return None
        kwargs = {}
        for kw in value.keywords:
            if kw.arg is None:
                raise AnalysisError('partial binding {} uses **kwargs'.format(name))
            if kw.arg == 'cs':
                cs_node = kw.value
                if isinstance(cs_node, ast.Name) and cs_node.id not in self.poison and cs_node.id in self.assign_nodes \
                        and isinstance(self.assign_nodes[cs_node.id], ast.Assign) \
                        and isinstance(self.assign_nodes[cs_node.id].value, (ast.List, ast.Tuple)):
                    # cs=NAMED_LIST with NAMED_LIST = [c1, c2] at module level
                    cs_node = self.assign_nodes[cs_node.id].value
                if not isinstance(cs_node, (ast.List, ast.Tuple)):
                    raise AnalysisError('partial binding {}: cs is not a literal list'.format(name))
                cs = []
                for e in cs_node.elts:
                    if isinstance(e, ast.Name) and e.id in self.closures:
                        cs.append(self.closures[e.id])
                    elif isinstance(e, ast.Call) and isinstance(e.func, ast.Name):
                        cs.append(Closure('<inline>', e.func.id, [self._fold_arg(a) for a in e.args], e))
                    else:
                        raise AnalysisError('partial binding {}: unresolved constraint {}'.format(name, unparse(e)))
                kwargs['cs'] = cs
            else:
                kwargs[kw.arg] = self._fold_arg(kw.value)
        if len(value.args) > 1:
            raise AnalysisError('partial binding {} pre-binds positional arguments'.format(name))
        base = value.args[0].id
        if base in self.partials:
            # partial of a partial: functools flattens it (keywords of the outer one win)
            inner = self.partials[base]
            merged = dict(inner.kwargs)
            merged.update(kwargs)
            kwargs, base = merged, inner.func
        self.partials[name] = Partial(name, base, kwargs, st)
        return self.partials[name]

    def _factory_result(self, call, depth=0):
        """The `partial(...)` expression a module-level factory call stands for (parameters substituted by the argument
        expressions), or None when the callee is not such a factory."""
        if not (isinstance(call.func, ast.Name) and call.func.id in self.funcs) or depth > 4:
            return None
        fn = self.funcs[call.func.id]
        body = [b for b in fn.body if not (isinstance(b, ast.Expr) and isinstance(b.value, ast.Constant))]
        if len(body) != 1 or not isinstance(body[0], ast.Return) or not isinstance(body[0].value, ast.Call) or fn.decorator_list:
            return None
        ret = body[0].value
        if dotted(ret.func) not in ('partial', 'functools.partial'):
            inner = self._factory_result(ret, depth + 1) if isinstance(ret.func, ast.Name) and ret.func.id in self.funcs else None
            if inner is None:
                return None
        a = fn.args
        if a.vararg or a.kwarg or any(isinstance(x, ast.Starred) for x in call.args) or any(k.arg is None for k in call.keywords):
            return None
        pos = [x.arg for x in a.posonlyargs + a.args]
        if len(call.args) > len(pos):
            return None
        env = dict(zip(pos, call.args))
        names = set(pos) | {x.arg for x in a.kwonlyargs}
        for k in call.keywords:
            if k.arg not in names or k.arg in env:
                return None
            env[k.arg] = k.value
        defaults = dict(zip(pos[len(pos) - len(a.defaults):], a.defaults))
        for x, d in zip(a.kwonlyargs, a.kw_defaults):
            if d is not None:
                defaults[x.arg] = d
        for n in names:
            if n not in env:
                if n not in defaults:
                    return None
                env[n] = defaults[n]

        class Subst(ast.NodeTransformer):
            def visit_Name(self_inner, node):
                if isinstance(node.ctx, ast.Load) and node.id in env:
                    return env[node.id]
                return node

        import copy
        out = Subst().visit(copy.deepcopy(_strip_parents(ret)))
        ast.copy_location(out, call)
        ast.fix_missing_locations(out)
        if dotted(out.func) not in ('partial', 'functools.partial'):
            return self._factory_result(out, depth + 1)
        return out

    def _fold_arg(self, node):
        try:
            return fold(node, self.consts)
        except NotConstant:
            raise AnalysisError('cannot fold bound argument {}'.format(unparse(node)))

    def _module_call(self, call, top):
        # NAME.update(OTHER) and the other mutating methods at module level for dict / set tables
        if not (isinstance(call.func, ast.Attribute) and isinstance(call.func.value, ast.Name) and call.func.attr in _MUTATORS):
            return
        tgt = call.func.value.id
        if tgt in self.poison or not self._known(tgt):
            return
        why = 'written by `{}`'.format(unparse(call).split('\n')[0][:70])
        if call.func.attr == 'setdefault' and dict.__contains__(self.tables, tgt) and len(call.args) == 2 and not call.keywords:
            one = self._table_of_expr(ast.Dict(keys=[call.args[0]], values=[call.args[1]]))
            if one is not None:
                merged = dict(self.tables[tgt])
                for k_, v_ in one.items():
                    merged.setdefault(k_, v_)            # an existing key keeps its value
                self.tables[tgt] = merged
                self.consts[tgt] = merged
                self.modelled_stmts.add(id(top))
                return
        if call.func.attr == 'pop' and dict.__contains__(self.tables, tgt) and 1 <= len(call.args) <= 2 and not call.keywords:
            k_ = try_fold(call.args[0], self.consts, default=_MISSING)
            if k_ is not _MISSING:
                merged = dict(self.tables[tgt])
                if k_ in merged or len(call.args) == 2:
                    merged.pop(k_, None)
                    self.tables[tgt] = merged
                    self.consts[tgt] = merged
                    self.modelled_stmts.add(id(top))
                    return
        if call.func.attr in ('add', 'discard', 'remove') and dict.__contains__(self.sets, tgt) and len(call.args) == 1 and not call.keywords:
            x_ = try_fold(call.args[0], self.consts, default=_MISSING)
            if x_ is not _MISSING:
                try:
                    new_set = set(self.sets[tgt])
                    if call.func.attr == 'add':
                        new_set.add(x_)
                    elif x_ in new_set or call.func.attr == 'discard':
                        new_set.discard(x_)
                    else:
                        raise TypeError
                    self.sets[tgt] = new_set
                    self.consts[tgt] = new_set
                    self.modelled_stmts.add(id(top))
                    return
                except TypeError:
                    pass
        if call.func.attr != 'update':
            self.taint(tgt, why)
            return
        if dict.__contains__(self.tables, tgt):
            if not self._module_update(tgt, call, top):
                self.taint(tgt, why)
        elif dict.__contains__(self.sets, tgt):
            src = set() if call.args and not call.keywords else None
            for arg in (call.args if src is not None else ()):
                one = self._members_of_expr(arg)
                if one is None:
                    src = None
                    break
                src |= one
            if src is not None:
                self.sets[tgt] = set(self.sets[tgt]) | src
                self.consts[tgt] = self.sets[tgt]
                self.modelled_stmts.add(id(top))
            else:
                self.taint(tgt, why)
        else:
            self.taint(tgt, why)

    def _class_details(self, ci):
        init = ci.methods.get('__init__')
        ci.init_opaque = False
        ci.attr_detail = None
        if init is not None:
            a = init.args
            pos = a.args[1:]
            me = a.args[0].arg if a.args else 'self'
            defaults = [None] * (len(pos) - len(a.defaults)) + list(a.defaults)
            ci.init_params = [(p.arg, d) for p, d in zip(pos, defaults)]
            ci.init_vararg = a.vararg.arg if a.vararg else None
            order = []
            detail = []

            def how_of(v):
                """(constructor parameter the stored value comes from, how): 'identity' for the parameter itself, 'idempotent' for
                f(parameter) with f(f(x)) == f(x) (a rebuild from the attribute gives the same attribute), 'const', 'other'."""
                if isinstance(v, ast.Name):
                    return v.id, 'identity'
                if isinstance(v, ast.Constant):
                    return None, 'const'
                if isinstance(v, ast.Call) and not v.keywords:
                    if isinstance(v.func, ast.Name) and v.func.id in ('str', 'int', 'bool', 'tuple', 'list', 'bytes', 'float') \
                            and len(v.args) == 1 and isinstance(v.args[0], ast.Name):
                        return v.args[0].id, 'idempotent'
                    if isinstance(v.func, ast.Attribute) and v.func.attr in ('lower', 'upper', 'strip', 'casefold') and not v.args \
                            and isinstance(v.func.value, ast.Name):
                        return v.func.value.id, 'idempotent'
                return None, 'other'

            def store(attr, v):
                src, how = how_of(v)
                order.append((attr, src if how == 'identity' else None))
                detail.append((attr, src, how))

            def is_me(t):
                return isinstance(t, ast.Attribute) and isinstance(t.value, ast.Name) and t.value.id == me

            for st in init.body:
                if isinstance(st, ast.Pass) or (isinstance(st, ast.Expr) and isinstance(st.value, ast.Constant)):
                    continue
                if (isinstance(st, ast.Expr) and isinstance(st.value, ast.Call)
                        and isinstance(st.value.func, ast.Attribute) and st.value.func.attr == '__init__'):
                    # super().__init__(line) / Base.__init__(self, line): attribute order continues in the base class
                    cargs = list(st.value.args)
                    if isinstance(st.value.func.value, ast.Name) and cargs and isinstance(cargs[0], ast.Name) and cargs[0].id == me:
                        cargs = cargs[1:]
                    if st.value.keywords or any(isinstance(x, ast.Starred) for x in cargs):
                        ci.init_opaque = True
                    order.append(('<super>', [unparse(x) for x in cargs]))
                    detail.append(('<super>', [unparse(x) for x in cargs], None))
                elif isinstance(st, ast.Assign) and len(st.targets) == 1 and is_me(st.targets[0]):
                    store(st.targets[0].attr, st.value)
                elif (isinstance(st, ast.Assign) and len(st.targets) == 1 and isinstance(st.targets[0], (ast.Tuple, ast.List))
                      and isinstance(st.value, (ast.Tuple, ast.List)) and len(st.targets[0].elts) == len(st.value.elts)
                      and all(is_me(t) for t in st.targets[0].elts)):
                    # self.a, self.b = a, b : targets are stored left to right
                    for t, v in zip(st.targets[0].elts, st.value.elts):
                        store(t.attr, v)
                elif (isinstance(st, ast.Expr) and isinstance(st.value, ast.Call) and isinstance(st.value.func, ast.Attribute) and st.value.func.attr == 'update'
                      and not st.value.args and st.value.keywords and all(k.arg is not None for k in st.value.keywords)
                      and ((isinstance(st.value.func.value, ast.Call) and isinstance(st.value.func.value.func, ast.Name) and st.value.func.value.func.id == 'vars'
                            and len(st.value.func.value.args) == 1 and isinstance(st.value.func.value.args[0], ast.Name) and st.value.func.value.args[0].id == me)
                           or (isinstance(st.value.func.value, ast.Attribute) and st.value.func.value.attr == '__dict__'
                               and isinstance(st.value.func.value.value, ast.Name) and st.value.func.value.value.id == me))):
                    # vars(self).update(a=a, b=b) / self.__dict__.update(a=a, b=b): keyword order is insertion order
                    for k in st.value.keywords:
                        store(k.arg, k.value)
                elif isinstance(st, ast.Assign) and len(st.targets) > 1 and all(is_me(t) for t in st.targets):
                    # self.a = self.b = v : targets are stored left to right
                    for t in st.targets:
                        store(t.attr, st.value)
                else:
                    # anything else may store attributes in a way this model does not follow (setattr loops, conditionals, helpers)
                    ci.init_opaque = True
            ci.attr_order = order
            ci.attr_detail = detail
        args_m = ci.methods.get('args')
        if args_m is not None and args_m.args.args and not args_m.decorator_list:
            me_ = args_m.args.args[0].arg
            body = [b for b in args_m.body if not (isinstance(b, ast.Expr) and isinstance(b.value, ast.Constant))]
            local = {}

            def attrs_of(e):
                """attribute names of a list / tuple display of `self.x` elements, a concatenation of such, list(..) / tuple(..) of one,
                or a local bound once to one; None otherwise"""
                if isinstance(e, (ast.List, ast.Tuple)):
                    out = []
                    for x in e.elts:
                        if isinstance(x, ast.Attribute) and isinstance(x.value, ast.Name) and x.value.id == me_:
                            out.append(x.attr)
                        else:
                            return None
                    return out
                if isinstance(e, ast.BinOp) and isinstance(e.op, ast.Add):
                    l, r = attrs_of(e.left), attrs_of(e.right)
                    return None if l is None or r is None else l + r
                if isinstance(e, ast.Call) and isinstance(e.func, ast.Name) and e.func.id in ('list', 'tuple') and len(e.args) == 1 and not e.keywords:
                    return attrs_of(e.args[0])
                if isinstance(e, ast.Name) and e.id in local:
                    return local[e.id]
                return None

            ok = True
            for st in body[:-1]:
                # straight-line locals in front of the return: `operands = [self.a, self.b]`
                if isinstance(st, ast.Assign) and len(st.targets) == 1 and isinstance(st.targets[0], ast.Name) and st.targets[0].id not in local \
                        and attrs_of(st.value) is not None:
                    local[st.targets[0].id] = attrs_of(st.value)
                else:
                    ok = False
            if ok and body and isinstance(body[-1], ast.Return) and body[-1].value is not None:
                ci.args_attrs = attrs_of(body[-1].value)

    # ------------------------------------------------------------------------------------------
    def mro(self, cname):
        out = []
        todo = [cname]
        while todo:
            c = todo.pop(0)
            if c in out or c not in self.classes:
                continue
            out.append(c)
            todo.extend(b for b in self.classes[c].bases if b)
        return out

    def is_subclass(self, cname, base):
        return base in self.mro(cname)

    def subclasses(self, base):
        return [c for c in self.classes if self.is_subclass(c, base)]

    def method(self, cname, mname):
        for c in self.mro(cname):
            m = self.classes[c].methods.get(mname)
            if m is not None:
                return c, m
        return None, None

    def full_attr_order(self, cname):
        """[(attr, ctor-param)] in the order vars(obj) lists them (dict insertion order of __init__ chain)."""
        ci = self.classes[cname]
        if ci.attr_order is None:
            for b in ci.bases:
                if b in self.classes:
                    return self.full_attr_order(b)
            return []
        out = []
        for attr, src in ci.attr_order:
            if attr == '<super>':
                for b in ci.bases:
                    if b in self.classes and self._has_init(b):
                        base_order = self.full_attr_order(b)
                        base_params = [p for p, _ in self.init_params(b)]
                        # map base param -> our expression
                        for (battr, bsrc) in base_order:
                            mapped = None
                            if bsrc in base_params:
                                idx = base_params.index(bsrc)
                                if idx < len(src):
                                    mapped = src[idx]
                            out.append((battr, mapped))
                        break
            else:
                out.append((attr, src))
        return out

    def attr_order_detailed(self, cname):
        """[(attr, constructor parameter or None, how)] like full_attr_order, with how the stored value derives from the parameter:
        'identity' | 'idempotent' | 'const' | 'other'."""
        ci = self.classes[cname]
        if ci.attr_detail is None:
            for b in ci.bases:
                if b in self.classes:
                    return self.attr_order_detailed(b)
            return []
        out = []
        params = {p for p, _ in (ci.init_params or [])}
        for attr, src, how in ci.attr_detail:
            if attr == '<super>':
                for b in ci.bases:
                    if b in self.classes and self._has_init(b):
                        base_params = [p for p, _ in self.init_params(b)]
                        for (battr, bsrc, bhow) in self.attr_order_detailed(b):
                            mapped, mhow = None, 'other' if bhow != 'const' else 'const'
                            if bsrc in base_params and base_params.index(bsrc) < len(src):
                                text = src[base_params.index(bsrc)]
                                if text in params:
                                    mapped, mhow = text, bhow
                            out.append((battr, mapped, mhow))
                        break
            else:
                out.append((attr, src if src in params else None, how if (src in params or how == 'const') else 'other'))
        return out

    def init_understood(self, cname):
        """Every __init__ on the constructor chain of cname consists of attribute stores and base-class calls only."""
        ci = self.init_owner(cname)
        seen = 0
        while ci is not None and seen < 8:
            seen += 1
            if getattr(ci, 'init_opaque', False):
                return False
            if not any(a == '<super>' for a, _ in (ci.attr_order or [])):
                return True
            nxt = None
            for b in ci.bases:
                if b in self.classes and self._has_init(b):
                    nxt = self.init_owner(b)
                    break
            ci = nxt
        return True

    def _has_init(self, cname):
        return any('__init__' in self.classes[c].methods for c in self.mro(cname))

    def init_params(self, cname):
        for c in self.mro(cname):
            ci = self.classes[c]
            if ci.init_params is not None:
                return ci.init_params
        return []

    def init_owner(self, cname):
        for c in self.mro(cname):
            if self.classes[c].init_params is not None:
                return self.classes[c]
        return None

    def args_attrs(self, cname):
        """Attribute names args() of class `cname` returns, in order: a literal `[self.a, self.b]`, or
        `[getattr(self, n) for n in self.OPERANDS]` over a class-level constant tuple (resolved along the MRO of `cname`, so a
        shared args() with per-class OPERANDS works); None when args() is something else (PseudoInstruction: `self.args`)."""
        for c in self.mro(cname):
            ci = self.classes[c]
            if 'args' in ci.methods:
                if ci.args_attrs is not None:
                    return ci.args_attrs
                return self._args_by_names(cname, ci.methods['args'])
            # `args = OtherClass.args` in the class body: the other class's method, applied to this class's attributes
            for st in ci.node.body:
                if isinstance(st, ast.Assign) and len(st.targets) == 1 and isinstance(st.targets[0], ast.Name) and st.targets[0].id == 'args':
                    v = st.value
                    if isinstance(v, ast.Attribute) and v.attr == 'args' and isinstance(v.value, ast.Name) and v.value.id in self.classes and v.value.id != cname:
                        got = self.args_attrs(v.value.id)
                        own = [a for a, _ in self.full_attr_order(cname)]
                        if got is not None and all(a in own for a in got):
                            return got
                    return None
        return None

    def class_constant(self, cname, attr):
        """Folded value of a class-level assignment `attr = <constant>` found along the MRO of cname, or None."""
        for c in self.mro(cname):
            for st in self.classes[c].node.body:
                if isinstance(st, ast.Assign) and any(isinstance(t, ast.Name) and t.id == attr for t in st.targets):
                    return try_fold(st.value, self.consts)
        return None

    def _args_by_names(self, cname, m):
        body = [b for b in m.body if not (isinstance(b, ast.Expr) and isinstance(b.value, ast.Constant))]
        if len(body) != 1 or not isinstance(body[0], ast.Return) or len(m.args.args) != 1:
            return None
        me = m.args.args[0].arg
        v = body[0].value
        if isinstance(v, ast.Call) and isinstance(v.func, ast.Name) and v.func.id in ('list', 'tuple') and len(v.args) == 1 and not v.keywords:
            v = v.args[0]
        if not isinstance(v, (ast.ListComp, ast.GeneratorExp)) or len(v.generators) != 1:
            return None
        g = v.generators[0]
        if g.ifs or g.is_async or not isinstance(g.target, ast.Name):
            return None
        e = v.elt
        if not (isinstance(e, ast.Call) and isinstance(e.func, ast.Name) and e.func.id == 'getattr' and len(e.args) == 2 and not e.keywords
                and isinstance(e.args[0], ast.Name) and e.args[0].id == me and isinstance(e.args[1], ast.Name) and e.args[1].id == g.target.id):
            return None
        src = g.iter
        names = None
        if isinstance(src, ast.Attribute):
            base = src.value
            is_self = isinstance(base, ast.Name) and base.id == me
            is_type = (isinstance(base, ast.Call) and isinstance(base.func, ast.Name) and base.func.id == 'type' and len(base.args) == 1
                       and isinstance(base.args[0], ast.Name) and base.args[0].id == me) or \
                      (isinstance(base, ast.Attribute) and base.attr == '__class__' and isinstance(base.value, ast.Name) and base.value.id == me)
            if is_self or is_type:
                names = self.class_constant(cname, src.attr)
            elif isinstance(base, ast.Name) and base.id in self.classes:
                names = self.class_constant(base.id, src.attr)
        else:
            names = try_fold(src, self.consts)
        if isinstance(names, (list, tuple)) and all(isinstance(n, str) for n in names):
            return list(names)
        return None

    # -- mnemonic tables -------------------------------------------------------------------------
    def require_static(self, name):
        """The folded content of a module-level table is its content at run time only if no function writes it."""
        fn = self.function_written.get(name)
        if fn is not None:
            raise AnalysisError('module-level table {} is written by the function {}: its content is not what the module-level '
                                'statements fold to'.format(name, fn))

    def instruction_tables(self):
        """{table name: {mnemonic: binding}} for every *_INSTRUCTIONS table merged into INSTRUCTIONS."""
        order = getattr(self, 'table_update_order', {}).get('INSTRUCTIONS', [])
        self.require_static('INSTRUCTIONS')
        for t in order:
            self.require_static(t)
        return {t: self.tables[t] for t in order}

    def instructions(self):
        if 'INSTRUCTIONS' not in self.tables:
            raise AnalysisError('anchor vanished: INSTRUCTIONS table')
        self.require_static('INSTRUCTIONS')
        return self.tables['INSTRUCTIONS']

    def binding(self, mnemonic):
        b = self.instructions().get(mnemonic)
        if b is None or b not in self.partials:
            raise AnalysisError('mnemonic {!r} has no resolvable partial binding'.format(mnemonic))
        return self.partials[b]

    def table_of(self, mnemonic):
        return [t for t, d in self.instruction_tables().items() if mnemonic in d]
